---- MODULE MC_XArgs ----
(***************************************************************************)
(* X02 - finite case analysis: the validation logic of the code (tier B,   *)
(* transcribed per site) against the documented table XArgs!Zone, for      *)
(* every argument of a grid that contains all boundaries, one step outside *)
(* and the extreme values of the parameter types.                          *)
(* Variant = "repaired": the logic with the proposed patches               *)
(*   (notes/fixes/x_req_k.diff, x_countmin_shape.diff, x_nan_params.diff). *)
(* Variant = "shipped": the logic of the pinned tree - TLC must report a   *)
(*   violation (negative configurations, one per defect via Only).         *)
(***************************************************************************)
EXTENDS XArgs
CONSTANTS Variant, Only      \* Only = "" (all sites) or one site
VARIABLES site, a, cls
vars == <<site, a, cls>>

Small == 0..70 \cup {126, 127, 128, 129, 254, 255, 256, 257, 258, 300, 511, 512, 513, 1022, 1023, 1024, 1025, 1026, 2047, 2048, 2049,
                     16384, 32767, 32768, 32769, 65534, 65535}
Bytes == {x \in Small : x <= 255}
U16 == Small
Wide32 == {L(v) : v \in Small \cup {65536, 1073741823, 1073741824, 2147483645, 2147483646, 2147483647}} \cup {<<0, 0, 32768, 0>>, <<0, 0, 65535, 65535>>}
Wide64 == Wide32 \cup {<<0, 1, 0, 0>>, <<0, 3, 65535, 65271>>, BloomMaxBits, <<0, 3, 65535, 65273>>, <<0, 4, 0, 0>>, <<32768, 0, 0, 0>>, <<65535, 65535, 65535, 65535>>}

Grid(s) ==
  CASE s \in {"theta.lg_k", "theta_union.lg_k", "tuple.lg_k", "tuple_union.lg_k", "aod.lg_k", "hll.lg_k", "hll_union.lg_max_k", "hll.max_ser_bytes",
              "cpc.lg_k", "cpc_union.lg_k"} -> {<<<<L(v)>>, "none">> : v \in Bytes}
    [] s \in {"kll.k", "req.k", "quantiles.k", "tdigest.k"} -> {<<<<L(v)>>, "none">> : v \in U16}
    [] s \in {"theta.p", "tuple.p", "fi.weight_double", "varopt.weight", "ebpps.weight"} -> {<<<<>>, c>> : c \in FloatClasses}
    [] s = "fi.lg_sizes" -> {<<<<L(m), L(st)>>, "none">> : m \in 0..12, st \in 0..12}
    [] s = "fi.weight_i64" -> {<<<<w, L(sg)>>, "none">> : w \in {L(0), L(1), L(1000)}, sg \in {0, 1}}
    [] s = "countmin.shape" -> {<<<<L(h), b>>, "none">> : h \in {0, 1, 2, 3, 4, 5, 7, 64, 128, 255}, b \in Wide32}
    [] s = "bloom.by_size" -> {<<<<b, L(h)>>, "none">> : b \in Wide64, h \in {0, 1, 2, 65535}}
    [] s = "bloom.by_accuracy" -> {<<<<n>>, c>> : n \in {L(0), L(1), L(1000), <<0, 1, 0, 0>>}, c \in FloatClasses}
    [] s \in {"varopt.k", "varopt_union.max_k", "ebpps.k"} -> {<<<<k>>, "none">> : k \in Wide32}
    [] s = "density.k" -> {<<<<L(k), L(d)>>, "none">> : k \in U16, d \in {0, 1, 3}}
    [] s \in {"hll.bound_num_std_dev", "hll_union.bound_num_std_dev", "cpc.bound_kappa"} -> {<<<<L(k), L(f), L(m)>>, "none">> : k \in Bytes, f \in {0, 1}, m \in {0, 1, 2}}
    [] s = "cpc_union.update_seed" -> {<<<<L(x), L(y)>>, "none">> : x \in {0, 1}, y \in {0, 1}}
    [] s = "tdigest.split_points" -> {<<<<L(k), L(f)>>, "none">> : k \in 0..7, f \in {0, 1}}
    [] s = "bloom.init_by_size" -> {<<<<b, L(h), L(n)>>, "none">> : b \in {L(0), L(1), L(64), L(65), L(1000), BloomMaxBits, <<0, 3, 65535, 65273>>}, h \in {0, 3}, n \in {0, 31, 32, 39, 40, 47, 48, 152, 159, 160, 1000}}
    [] s = "bloom.init_by_accuracy" -> {<<<<n, L(len)>>, c>> : n \in {L(0), L(100), <<0, 256, 0, 0>>}, len \in {8, 39, 40, 1048576}, c \in FloatClasses}
    [] s = "bloom.from_memory" -> {<<<<L(k), L(f)>>, "none">> : k \in 0..2, f \in 0..2}
    [] s = "bloom.serialized_size" -> {<<<<b>>, "none">> : b \in Wide64}
    [] s = "bloom.suggest_hashes_nm" -> {<<<<n, b>>, "none">> : n \in {L(0), L(1), L(1000)}, b \in Wide64}
    [] s = "theta_intersection.operand" -> {<<<<L(k), L(p), L(o), L(f)>>, "none">> : k \in 0..2, p \in 1..2, o \in 0..1, f \in 0..1}

\* ---- the code's validation, per site: [out |-> outcome, echo |-> value the getter reports (<<>> if none)]
Ok(e) == [out |-> "ok", echo |-> e]
Refuse == [out |-> "invalid_argument", echo |-> <<>>]
\* comparisons with NaN are false: a test written "x <= 0 || x > 1" lets NaN through
ShippedRangeTest01(c) == c \in {"ninf", "neg", "zero", "big", "pinf"}     \* refused by "p <= 0 || p > 1"
Impl(s, x, c) ==
  LET v == Val(x[1]) IN
  CASE s \in {"theta.lg_k", "tuple.lg_k", "aod.lg_k"} -> IF v < 5 \/ v > 26 THEN Refuse ELSE Ok(x[1])
    [] s \in {"theta_union.lg_k", "tuple_union.lg_k"} -> IF v < 5 \/ v > 26 THEN Refuse ELSE Ok(<<>>)
    [] s \in {"theta.p", "tuple.p"} ->
         IF Variant = "shipped" THEN (IF ShippedRangeTest01(c) THEN Refuse ELSE Ok(<<>>))
         ELSE (IF Probability(c) THEN Ok(<<>>) ELSE Refuse)
    [] s \in {"hll.lg_k", "hll_union.lg_max_k"} -> IF v >= 4 /\ v <= 21 THEN Ok(x[1]) ELSE Refuse
    [] s = "hll.max_ser_bytes" -> Ok(<<>>)
    [] s = "cpc.lg_k" -> IF v < 4 \/ v > 26 THEN Refuse ELSE Ok(x[1])
    [] s = "cpc_union.lg_k" -> IF v < 4 \/ v > 26 THEN Refuse ELSE Ok(<<>>)
    [] s = "kll.k" -> IF v < 8 \/ v > 65535 THEN Refuse ELSE Ok(x[1])
    [] s = "req.k" ->
         \* k_(std::max<uint8_t>(k & -2, MIN_K)): the shipped template argument truncates to 8 bits; repaired: uint16_t
         LET even == v - (v % 2)
             t == IF Variant = "shipped" THEN even % 256 ELSE even
         IN Ok(L(IF t < 4 THEN 4 ELSE t))
    [] s = "quantiles.k" -> IF v < 2 \/ v > 32768 \/ ~IsPow2(v) THEN Refuse ELSE Ok(x[1])
    [] s = "fi.lg_sizes" -> IF Val(x[2]) > v THEN Refuse ELSE Ok(<<>>)
    [] s = "fi.weight_i64" -> IF Val(x[2]) = 1 /\ ~IsZero(x[1]) THEN Refuse ELSE Ok(<<>>)
    [] s \in {"fi.weight_double", "varopt.weight", "ebpps.weight"} ->
         \* weight < 0 || isnan || isinf
         IF c \in {"neg", "ninf", "nan", "pinf"} THEN Refuse ELSE Ok(<<>>)
    [] s = "countmin.shape" ->
         \* h * b in 64 bits (repaired) or wrapped to 32 bits (shipped): ph = bits 16.. of the product
         LET h == v  hi == x[2][3]  lo == x[2][4]
             ph == h * hi + (h * lo) \div 65536
             top == IF Variant = "shipped" THEN ph % 65536 ELSE ph
         IN IF Val(x[2]) < 3 THEN Refuse
            ELSE IF Variant /= "shipped" /\ h = 0 THEN Refuse
            ELSE IF top >= 16384 THEN Refuse ELSE Ok(<<>>)
    [] s = "bloom.by_size" -> IF IsZero(x[1]) \/ ~LimbLE(x[1], BloomMaxBits) \/ IsZero(x[2]) THEN Refuse ELSE Ok(x[2])
    [] s = "bloom.by_accuracy" ->
         \* validate_accuracy_inputs, then the constructor refuses 0 bits / 0 hashes (probability 1 or NaN end there)
         IF IsZero(x[1]) THEN Refuse
         ELSE IF Variant = "shipped" THEN (IF ShippedRangeTest01(c) \/ c \in {"one", "nan"} THEN Refuse ELSE Ok(<<>>))
         ELSE (IF c = "unit" THEN Ok(<<>>) ELSE Refuse)
    [] s \in {"varopt.k", "ebpps.k"} -> IF v = 0 \/ v > 2147483646 THEN Refuse ELSE Ok(x[1])
    [] s = "varopt_union.max_k" -> IF v = 0 \/ v > 2147483646 THEN Refuse ELSE Ok(<<>>)
    [] s = "tdigest.k" -> IF v < 10 THEN Refuse ELSE Ok(x[1])
    [] s = "density.k" -> IF v < 2 THEN Refuse ELSE Ok(x[1])
    [] s \in {"hll.bound_num_std_dev", "hll_union.bound_num_std_dev", "cpc.bound_kappa"} -> IF v < 1 \/ v > 3 THEN Refuse ELSE Ok(<<>>)
    [] s = "cpc_union.update_seed" -> IF v = 1 THEN Ok(<<>>) ELSE Refuse
    [] s = "tdigest.split_points" -> IF v \in {0, 7} THEN Ok(<<>>) ELSE Refuse       \* isnan first, then !(values[i] < values[i + 1])
    [] s = "bloom.init_by_size" ->
         \* validate_size_inputs, then the constructor: the block must hold 8 * (4 + ceil(bits / 64)) bytes
         IF IsZero(x[1]) \/ ~LimbLE(x[1], BloomMaxBits) \/ IsZero(x[2]) THEN Refuse
         ELSE IF ~LimbLE(x[1], L(100000)) THEN (IF LimbLE(x[3], L(100000)) THEN Refuse ELSE Ok(x[2]))
         ELSE IF Val(x[3]) < 8 * (4 + (Val(x[1]) + 63) \div 64) THEN Refuse ELSE Ok(x[2])
    [] s = "bloom.init_by_accuracy" ->
         \* validate_accuracy_inputs; probability 1 gives 0 hashes (refused by the constructor); 2^40 items need more than the largest filter;
         \* 100 items at a probability in (0, 1) need more than 40 bytes and less than a megabyte
         IF IsZero(x[1]) \/ ~Probability(c) \/ c = "one" \/ Val(x[1]) > 1000 THEN Refuse
         ELSE IF Val(x[2]) < 1048576 THEN Refuse ELSE Ok(<<>>)
    [] s = "bloom.from_memory" -> IF v = 0 THEN Ok(<<>>) ELSE IF v = 1 THEN Refuse ELSE [out |-> "other", echo |-> <<>>]
    [] s = "bloom.serialized_size" -> IF IsZero(x[1]) THEN Refuse ELSE Ok(<<>>)
    [] s = "bloom.suggest_hashes_nm" -> IF IsZero(x[1]) \/ IsZero(x[2]) \/ ~LimbLE(x[2], BloomMaxBits) THEN Refuse ELSE Ok(<<>>)
    [] s = "theta_intersection.operand" ->
         \* first operand: every entry is looked up before it is inserted (duplicate), then the number inserted is compared with the count
         \* (the iterator of a deserialized sketch skips zero hashes, the wrapped one does not); later operands: only an unordered
         \* deserialized operand with a skipped entry is noticed ("fewer keys than expected")
         LET kind == v  pos == Val(x[2])  ord == Val(x[3])  form == Val(x[4]) IN
         IF kind = 1 /\ pos = 1 THEN Refuse
         ELSE IF kind = 2 /\ form = 0 /\ (pos = 1 \/ ord = 0) THEN Refuse
         ELSE Ok(<<>>)

Init == /\ site \in (IF Only = "" THEN Sites ELSE {Only})
        /\ \E g \in Grid(site) : a = g[1] /\ cls = g[2]
Next == UNCHANGED vars
Spec == Init /\ [][Next]_vars

Conforms == LET r == Impl(site, a, cls) IN CallOK(site, a, cls, r.out, r.echo, "ok", TRUE)
\* sanity of the table itself: total, and every site has both an accepted and (unless it refuses nothing) a boundary
TableTotal == Zone(site, a, cls) \in {"valid", "invalid", "free"}
====
