SPECIFICATION TSpec
CONSTANTS Ids = {} Items = {} Weights = {} LgMaxs = {} MaxTotal = 0 CheckDesign = FALSE
POSTCONDITION Accepted
CHECK_DEADLOCK FALSE
