SPECIFICATION TSpec
CONSTANTS Ids = {} Items = {} Weights = {} LgMaxs = {} MaxTotal = 0
POSTCONDITION Accepted
CHECK_DEADLOCK FALSE
