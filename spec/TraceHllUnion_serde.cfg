\* job hllunion_serde (C09): the same traces with the serialization clauses enforced
SPECIFICATION TUSpec
CONSTANTS Ids = {} LgKs = {} Coupons = {} Bigs = {} TrackFed = FALSE CheckDesign = FALSE Strict09 = TRUE SkPrefix = "C03:"
INVARIANT TInv
POSTCONDITION Accepted
CHECK_DEADLOCK FALSE
