---- MODULE GenLifecycle ----
(***************************************************************************)
(* Behaviour generation for C19 (DESIGN 3.1 "Gen_X"): TLC enumerates ALL   *)
(* interleavings of the lifecycle alphabet of the Lifecycle contract over  *)
(* its slots, up to Depth calls, and writes them as ND-JSON (one behaviour *)
(* = one JSON array of steps) for harness/life_rec.cpp to replay on the    *)
(* real classes.  Only the control part of the contract (Ctl: enabledness  *)
(* and the slot map) is used; digests and environment events are supplied  *)
(* by the implementation and judged by TraceLifecycle.                     *)
(*                                                                         *)
(* Pruning (all sound w.r.t. the property, which treats slots alike):      *)
(*  - slot symmetry: a new object (Construct / CopyConstruct /             *)
(*    MoveConstruct) is always created in the LEAST Dead slot;             *)
(*  - only behaviours of exactly Depth calls are emitted (shorter ones are *)
(*    their prefixes; the harness tears down whatever is left at the end); *)
(*  - per-behaviour quotas on the calls that do not change which objects   *)
(*    exist or how they are related: at most MaxMut Mutate calls (plus     *)
(*    "echo" Mutates that make two live objects' histories equal), MaxObs  *)
(*    Serialize/SelfAssign calls, MaxReset Reset calls;                    *)
(*  - a behaviour must contain at least MinRel relating calls (copy, move, *)
(*    assignment, merge): histories that only construct/mutate/destroy     *)
(*    single objects are left to the family drivers.                       *)
(* run:  tlc -workers 1 -config GenLifecycle.cfg GenLifecycle.tla  with    *)
(*       env GEN_OUT=<file>                                                *)
(***************************************************************************)
EXTENDS Lifecycle, Json, IOUtils, TLCExt
CONSTANTS Depth, MaxMut, MaxObs, MaxReset, MinRel
VARIABLE beh
gvars == <<vars, beh>>

Count(S) == Cardinality({n \in DOMAIN beh : beh[n].k \in S})
Rel == {"CopyConstruct", "MoveConstruct", "CopyAssign", "MoveAssign", "ChainAssign", "MergeRef", "MergeCRef", "MergeMove"}
\* an "echo" Mutate makes the object's history equal to that of another live object (e.g. the same op applied to a copy
\* after it was applied to the original): exactly the calls the equal-history clause feeds on, so they are exempt from MaxMut
Echo(i, op) == \E s \in Slots \ {i} : slot[s].st = "Live" /\ slot[s].hist = Append(slot[i].hist, Term(op, <<>>))
Quota(kind, i, op) ==
  CASE kind = "Mutate" -> Count({"Mutate"}) < MaxMut \/ (slot[i].st = "Live" /\ Echo(i, op))
    [] kind \in {"Serialize", "SelfAssign"} -> Count({"Serialize", "SelfAssign"}) < MaxObs
    [] kind = "Reset" -> Count({"Reset"}) < MaxReset
    [] OTHER -> TRUE
\* enough calls must remain to reach MinRel relating calls
Reachable(kind) == (MinRel - Count(Rel) - (IF kind \in Rel THEN 1 ELSE 0)) <= Depth - Len(beh) - 1

Fresh(kind, i, j) ==
  CASE kind = "Construct" -> LeastDead(i)
    [] kind \in {"CopyConstruct", "MoveConstruct"} -> LeastDead(j)
    [] OTHER -> TRUE
Uses(kind) == CASE kind \in {"Construct", "SelfAssign", "Serialize", "Reset", "Destroy", "Mutate"} -> 1
                [] kind = "ChainAssign" -> 3
                [] OTHER -> 2

\* partial-order reduction: calls on disjoint sets of slots commute in the contract (that is the independence
\* clause); of two ADJACENT commuting calls only the order "lower slot first" is generated.  Every equivalence
\* class of interleavings keeps its lexicographically least member.  Calls that create or destroy objects
\* interact with every slot through the least-Dead-slot rule and are never reordered.
Foot(kind, i, j, k) ==
  CASE kind \in {"Construct", "CopyConstruct", "MoveConstruct", "Destroy"} -> Slots
    [] kind \in {"Mutate", "SelfAssign", "Serialize", "Reset"} -> {i}
    [] kind = "ChainAssign" -> {i, j, k}
    [] OTHER -> {i, j}
MinOf(S) == CHOOSE x \in S : \A y \in S : x <= y
Canon(kind, i, j, k) ==
  IF beh = <<>> THEN TRUE
  ELSE LET p == beh[Len(beh)]  fp == Foot(p.k, p.i, p.j, p.c)  fn == Foot(kind, i, j, k) IN
       ~(fp \cap fn = {} /\ MinOf(fn) < MinOf(fp))

GStep(kind, i, j, k, op) ==
  /\ Quota(kind, i, op) /\ Reachable(kind) /\ Fresh(kind, i, j) /\ Canon(kind, i, j, k)
  /\ Ctl(kind, i, j, k, op)
  /\ beh' = Append(beh, [k |-> kind, i |-> i, j |-> j, c |-> k, op |-> op])
  /\ UNCHANGED <<dig, known, liveBlocks, liveItems>>

GInit == TLCSet(1, <<>>) /\ TLCSet(2, 0) /\ TLCSet(3, 0) /\ Init /\ beh = <<>>
GNext == /\ Len(beh) < Depth
         /\ \E kind \in Kinds, i \in Slots :
              \/ Uses(kind) = 1 /\ kind # "Mutate" /\ GStep(kind, i, 0, 0, "")
              \/ kind = "Mutate" /\ \E op \in MutOps : GStep(kind, i, 0, 0, op)
              \/ Uses(kind) = 2 /\ \E j \in Slots : GStep(kind, i, j, 0, "")
              \/ Uses(kind) = 3 /\ \E j, k \in Slots : GStep(kind, i, j, k, "")
GSpec == GInit /\ [][GNext]_gvars
\* finished behaviours are buffered in TLC register 1 and flushed to GEN_OUT.<n> every Chunk behaviours
\* (register 2 = number of files written, register 3 = number of behaviours); appending to one ever-growing
\* tuple would be quadratic
Chunk == 2000
File(n) == IOEnv.GEN_OUT \o "." \o ToString(n)
Collect == IF Len(beh) # Depth THEN TRUE
           ELSE LET acc == Append(TLCGet(1), beh) IN
                /\ TLCSet(3, TLCGet(3) + 1)
                /\ IF Len(acc) < Chunk THEN TLCSet(1, acc)
                   ELSE ndJsonSerialize(File(TLCGet(2)), acc) /\ TLCSet(2, TLCGet(2) + 1) /\ TLCSet(1, <<>>)
Post == /\ (Len(TLCGet(1)) > 0 => ndJsonSerialize(File(TLCGet(2)), TLCGet(1)))
        /\ PrintT(<<"BEHAVIOURS", TLCGet(3), "FILES", TLCGet(2) + (IF Len(TLCGet(1)) > 0 THEN 1 ELSE 0)>>)
====
