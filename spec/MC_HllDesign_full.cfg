\* start_full_size sketch (HLL mode from the start, reset returns to an empty array), 4 slots
SPECIFICATION Spec
CONSTANTS LgK = 2
 Full = TRUE
 Alphabet <- Alpha4
 ListSize = 2
 SetMinLgK = 8
 LgInitSet = 5
 SetLgDelta = 3
 AuxToken = 15
 ShiftBack = 14
INVARIANT ContentOK EmptyOK Rep Rep68 CInv
PROPERTY Refines
POSTCONDITION Covered
CHECK_DEADLOCK FALSE
