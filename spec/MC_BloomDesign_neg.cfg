\* NEGATIVE config (self-test only): model of the PINNED internal_update, which marks only the object dirty and
\* leaves the stored count of the wrapped region untouched.  Must violate the contract in 4 calls:
\* InitMem(f1, 1, c); Update(f1, x); Wrap(1, f2); Query(f2, x) answers FALSE although x is in the region's bits.
SPECIFICATION MCSpecR
CONSTANTS FltIds = {f1, f2}
 MemIds = {1}
 Cfgs <- MCCfg1
 Items <- MCItems
 MaxCalls = 5
 WriteDirtyThrough = FALSE
 QauKeepsDirty = TRUE
 RoCheckSetOps = TRUE
 RemarkWhenDirty = TRUE
INVARIANT CInv
CONSTRAINT MCBound
CHECK_DEADLOCK FALSE
