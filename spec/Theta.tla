---- MODULE Theta ----
(***************************************************************************)
(* Tier A contract of the update Theta sketch (property C01), written from *)
(* the property statement and the public documentation only.               *)
(*                                                                         *)
(* Hashes are abstract totally ordered values (naturals); every formula    *)
(* uses only =, <, <=, membership and cardinality on them, so a trace      *)
(* whose 63-bit hashes were renamed order-isomorphically satisfies the     *)
(* contract iff the raw one does.                                          *)
(*                                                                         *)
(* State: obj[i] for every live sketch i.  `seen` is the ghost ground      *)
(* truth (reference hashes of everything offered since the last reset).    *)
(* The retained set is NOT a free variable: the property fixes it as a     *)
(* function of seen and theta (Ret).  What the property leaves open - when *)
(* and how far theta is lowered - is the explicit parameter t of Update    *)
(* and Trim.                                                               *)
(***************************************************************************)
EXTENDS Naturals, FiniteSets, Sequences, TLC
CONSTANTS Ids, Hashes, Ks, Starts, MaxH   \* bounds used only by Next (model checking)
VARIABLE obj
vars == <<obj>>

Live == DOMAIN obj
Fresh(k, startH, maxH) ==
  [k |-> k, startH |-> startH, maxH |-> maxH, thetaH |-> startH, seen |-> {}, empty |-> TRUE]
Ret(o) == {x \in o.seen : x < o.thetaH}
\* what get_theta64() reports: an empty sketch reports the maximum
ObsTheta(o) == IF o.empty THEN o.maxH ELSE o.thetaH
EstMode(o) == ObsTheta(o) < o.maxH /\ ~o.empty

\* clauses of the statement, per object
ThetaIsStartOrSeen(o) == o.thetaH = o.startH \/ o.thetaH \in o.seen
BelowStartOnlyIfFull(o) == o.thetaH < o.startH => Cardinality(Ret(o)) >= o.k
PostOK(o) == ThetaIsStartOrSeen(o) /\ BelowStartOnlyIfFull(o)

Init == obj = <<>>
New(i, k, startH, maxH) == obj' = (i :> Fresh(k, startH, maxH)) @@ obj
Update(i, h, t) ==
  /\ i \in Live
  /\ LET o == obj[i]
         n == [o EXCEPT !.seen = @ \cup {h}, !.empty = FALSE, !.thetaH = t]
     IN /\ t <= o.thetaH                \* theta never increases
        /\ PostOK(n)
        /\ obj' = [obj EXCEPT ![i] = n]
\* update("") : ignored entirely, the sketch stays empty if it was
UpdateIgnored(i) == i \in Live /\ UNCHANGED obj
Trim(i, t) ==
  /\ i \in Live
  /\ LET o == obj[i]
         n == [o EXCEPT !.thetaH = t]
     IN /\ t <= o.thetaH
        /\ PostOK(n)
        /\ Cardinality(Ret(n)) <= o.k
        /\ obj' = [obj EXCEPT ![i] = n]
Reset(i) == /\ i \in Live
            /\ obj' = [obj EXCEPT ![i] = Fresh(@.k, @.startH, @.maxH)]
Copy(i, j) == i \in Live /\ obj' = (j :> obj[i]) @@ obj
Destroy(i) == i \in Live /\ obj' = [x \in Live \ {i} |-> obj[x]]

\* value returned by compact(ordered) / exposed by iteration: a compact-sketch value
CompactValue(o) == [thetaH |-> ObsTheta(o), ent |-> Ret(o), empty |-> o.empty]

Next == \E i \in Ids :
          \/ \E k \in Ks, s \in Starts : New(i, k, s, MaxH)
          \/ \E h \in Hashes, t \in Hashes \cup Starts : Update(i, h, t)
          \/ UpdateIgnored(i)
          \/ \E t \in Hashes \cup Starts : Trim(i, t)
          \/ Reset(i)
          \/ \E j \in Ids : Copy(i, j)
          \/ Destroy(i)
Spec == Init /\ [][Next]_vars

\* invariants = the property's clauses
Inv == \A i \in Live : LET o == obj[i] IN
         /\ PostOK(o)
         /\ o.thetaH <= o.startH
         \* exact whenever the distinct count fits and p = 1
         /\ (o.startH = o.maxH /\ Cardinality(o.seen) <= o.k => o.thetaH = o.maxH /\ Ret(o) = o.seen)
         /\ (o.empty => o.seen = {})
====
