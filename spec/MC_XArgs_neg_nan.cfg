\* X02 negative configuration (TLC must report a violation): the validation logic of the pinned tree at site theta.p
SPECIFICATION Spec
CONSTANTS Variant = "shipped" Only = "theta.p"
INVARIANT Conforms
CHECK_DEADLOCK FALSE
