---- MODULE TraceQuantiles ----
(***************************************************************************)
(* Trace validation of recorded executions of kll_sketch, req_sketch and   *)
(* quantiles_sketch (harness/quant_rec.cpp) against the Quantiles contract *)
(* (C07) and the Serde clauses of C09.  One successor per event: the free  *)
(* part of the contract (k, estimation mode, retained count, published     *)
(* space, iteration result) is bound to the logged post-state.  Items are  *)
(* logged as D tokens of a key that is order-isomorphic to the sketch's    *)
(* comparator (munge.py renames them to ranks).                            *)
(***************************************************************************)
EXTENDS Quantiles, TraceCommon
CONSTANT CheckDesign    \* TRUE only in the tier-B configuration (TraceQuantilesB.cfg): keep a design-level shadow state per sketch,
                        \* advanced by the design models' own operators (spec/KllMech.tla, ...) with the CODE's constants and the
                        \* logged coins, and compare it with the observed levels; a rejection there is MODEL-DRIFT, not a violation
VARIABLES sh,           \* tier B: id -> shadow design state ([sup |-> FALSE] where no design model applies)
          blob,
          ck      \* ghost per object: smallest k that contributed compacted data (Quantiles!CkUpdate / CkMerge)
tvars == <<obj, l, blob, ck, sh>>

PairsOf(e) == IF Has(e, "pairs") THEN e.pairs ELSE NoObs
Post(e) == [k |-> e.k, n |-> e.n, minI |-> e.minD, maxI |-> e.maxD, est |-> e.est, nret |-> e.nret,
            used |-> e.used, bound |-> e.bound, pairs |-> PairsOf(e)]
ChkAll(cl) == \A c \in DOMAIN cl : Chk(cl[c][1], cl[c][2])
\* named evaluation of the contract's clauses on the candidate post-object (the action itself then cannot fail silently)
Named(o, e) == ChkAll(GhostClauses(o, Post(e))) /\ ChkAll(Clauses(o))
Sum(s) == SeqSum(s, LAMBDA x : x)

\* observers logged with a full projection: iteration, sorted view, rank / quantile / CDF / PMF answers
\*   ranks  : <<item, round(rank_incl * n), round(rank_excl * n), residuals tiny>> ascending by item
\*   quants : <<kind, a, b, q_incl, q_excl>>; kind 0: normalized rank (a + 1/2) / n; kind 1: normalized rank a / b, b a power of two
QLo(q, n) == IF q[1] = 0 THEN q[2] ELSE (q[2] * n) \div q[3]
QHi(q, n) == IF q[1] = 0 THEN q[2] + 1 ELSE QLo(q, n) + (IF (q[2] * n) % q[3] = 0 THEN 0 ELSE 1)
Projection(e, o) ==
  LET p == e.pairs
      cum == CumW(p)
      n == o.n IN
  /\ Chk("iteration-yields-num-retained", e.iterN = e.nret)
  /\ Chk("sorted-view-ordered", NonDec(e.svI))
  /\ Chk("sorted-view-cumulative", Asc(e.svC) /\ (Len(e.svC) > 0 => e.svC[1] >= 1))
  /\ Chk("sorted-view-total-weight", IF n = 0 THEN Len(e.svC) = 0 ELSE Len(e.svC) > 0 /\ e.svC[Len(e.svC)] = n)
  /\ Chk("sorted-view-size", Len(e.svI) = e.nret /\ Len(e.svC) = e.nret)
  /\ Chk("sorted-view=iteration", e.svg = p)
  /\ (Has(e, "ranks") =>
      /\ \A q \in DOMAIN e.ranks : LET r == e.ranks[q] IN
           /\ Chk("rank-is-weight/n", r[4])
           /\ Chk("rank-inclusive", r[2] = RankW(p, r[1], TRUE))
           /\ Chk("rank-exclusive", r[3] = RankW(p, r[1], FALSE))
           /\ Chk("inclusive>=exclusive", r[2] >= r[3])
           /\ Chk("rank-in-[0,1]", r[3] >= 0 /\ r[2] <= n)
      /\ Chk("rank-monotone", \A q \in 1..(Len(e.ranks) - 1) :
             e.ranks[q][1] <= e.ranks[q + 1][1] => e.ranks[q][2] <= e.ranks[q + 1][2] /\ e.ranks[q][3] <= e.ranks[q + 1][3])
      /\ \A q \in DOMAIN e.quants : LET r == e.quants[q] IN
           /\ Chk("quantile-inclusive", r[4] = QuantileC(p, cum, QLo(r, n), QHi(r, n), TRUE))
           /\ Chk("quantile-exclusive", r[5] = QuantileC(p, cum, QLo(r, n), QHi(r, n), FALSE))
      /\ Chk("quantile-monotone", \A q1, q2 \in DOMAIN e.quants : LET a == e.quants[q1]  b == e.quants[q2] IN
             (QLo(a, n) <= QLo(b, n) /\ QHi(a, n) <= QHi(b, n)) => (a[4] <= b[4] /\ a[5] <= b[5]))
      /\ Chk("cdf/pmf-are-weights/n", e.cdfok)
      /\ Chk("cdf-inclusive", e.cdfI = CdfW(p, n, e.sp, TRUE))
      /\ Chk("cdf-exclusive", e.cdfE = CdfW(p, n, e.sp, FALSE))
      /\ Chk("pmf-inclusive", e.pmfI = PmfW(p, n, e.sp, TRUE))
      /\ Chk("pmf-exclusive", e.pmfE = PmfW(p, n, e.sp, FALSE))
      /\ Chk("pmf-sums-to-one", Sum(e.pmfI) = n /\ Sum(e.pmfE) = n)
      /\ Chk("cdf-monotone-ends-at-one", NonDec(e.cdfI) /\ NonDec(e.cdfE) /\ e.cdfI[Len(e.cdfI)] = n /\ e.cdfE[Len(e.cdfE)] = n))

\* an object restored from an image, continued in lock-step with its original under the same coins (C09, not REQ)
TwinOK(e, o) == (Has(e, "twinOf") /\ e.twinOf \in DOMAIN obj) =>
  LET t == obj[e.twinOf] IN
  \* the deterministic observables agree in every family (REQ's schedule does not depend on its coins; a restored REQ sketch draws new ones)
  /\ Chk("C09:twin-equal-scalars", o.n = t.n /\ o.k = t.k /\ o.est = t.est /\ o.nret = t.nret /\ o.minI = t.minI /\ o.maxI = t.maxI)
  /\ Chk("C09:twin-equal-pairs", (o.fam # "req" /\ o.pairs # NoObs /\ t.pairs # NoObs) => o.pairs = t.pairs)

-----------------------------------------------------------------------------
(* tier B: design-level shadow state *)
KM == INSTANCE KllMech WITH M <- 8, HalveUpParityFlip <- 0       \* kll_constants::DEFAULT_M = 8
CM == INSTANCE ClassicQMech WITH ZipIgnoresCoin <- 0
RM == INSTANCE ReqMech WITH InitSec <- 3, MergeCoin <- "adopt"      \* req_constants::INIT_NUM_SECTIONS = 3
NoSh == [sup |-> FALSE]
ShOf(i) == IF i \in DOMAIN sh THEN sh[i] ELSE NoSh
ShSet(f) == IF CheckDesign THEN f ELSE sh
Coins(e) == IF Has(e, "coins") THEN e.coins ELSE <<>>
ShNew(e) == CASE e.fam = "kll" -> [sup |-> TRUE, fam |-> "kll", k |-> e.k, minK |-> e.k, lv |-> << <<>> >>]
              [] e.fam = "classic" -> [sup |-> TRUE, fam |-> "classic", k |-> e.k, n |-> 0, bb |-> <<>>, lv |-> <<>>, bp |-> 0]
              [] e.fam = "req" /\ Has(e, "secs") -> [sup |-> TRUE, fam |-> "req", k |-> e.k, hra |-> e.hra, secs |-> e.secs, n |-> 0,
                                                    lv |-> <<RM!CNew(0, e.secs)>>]
              [] OTHER -> NoSh
\* [d, used]: the design model's update / merge with the logged coins
ShUpdate(d, v, cs) ==
  IF ~d.sup THEN [d |-> d, used |-> Len(cs)]
  ELSE IF d.fam = "kll" THEN LET r == KM!Insert(d.k, d.lv, v, KM!CoinAt(cs, 1)) IN [d |-> [d EXCEPT !.lv = r.lv], used |-> r.used]
  ELSE IF d.fam = "req" THEN LET r == RM!UpdLv(d.lv, d.hra, d.secs, v, cs) IN [d |-> [d EXCEPT !.lv = r.lv, !.n = @ + 1], used |-> r.used]
  ELSE LET r == CM!Upd(d, v, cs, 0) IN [d |-> r.s, used |-> r.used]
ShMerge(d, o, cs) ==
  IF ~d.sup \/ ~o.sup THEN [d |-> NoSh, used |-> Len(cs)]
  ELSE IF d.fam = "kll" THEN
       LET r == KM!MergeLevels(d.k, d.lv, o.lv, cs) IN
       [d |-> [d EXCEPT !.lv = r.lv, !.minK = IF Len(o.lv) > 1 THEN Min2(@, o.minK) ELSE @], used |-> r.used]
  ELSE IF o.n = 0 THEN [d |-> d, used |-> 0]
  ELSE IF d.fam = "req" THEN LET r == RM!MergeLv(d.lv, o.lv, d.hra, d.secs, cs) IN [d |-> [d EXCEPT !.lv = r.lv, !.n = @ + o.n], used |-> r.used]
  ELSE IF CM!DownSamples(d, o) THEN [d |-> NoSh, used |-> Len(cs)]     \* the down-sampling merge is not modelled: no shadow from here on
  ELSE LET r == CM!MergeCore(d, o, cs) IN [d |-> r.s, used |-> r.used]
\* observers that build the sorted view sort level 0 / the base buffer in place
ShSorted(d) == IF ~d.sup \/ d.fam = "req" THEN d ELSE IF d.fam = "kll" THEN [d EXCEPT !.lv[1] = KM!SortAsc(@)] ELSE [d EXCEPT !.bb = CM!SortAsc(@)]
\* serialize() of the classic sketch sorts its base buffer before writing it
ShSer(d) == IF d.sup /\ d.fam = "classic" THEN ShSorted(d) ELSE d
RECURSIVE Trim(_)
Trim(q) == IF q # <<>> /\ q[Len(q)] = <<>> THEN Trim(SubSeq(q, 1, Len(q) - 1)) ELSE q
\* the observed levels (iteration order, level by level: index = log2(weight) + 1) against the shadow
ShLevels(d) == CASE d.fam = "kll" -> d.lv
                 [] d.fam = "classic" -> Trim(<<d.bb>> \o d.lv)
                 [] OTHER -> Trim([h \in 1..Len(d.lv) |-> d.lv[h].items])
\* REQ: level 0 is iterated in buffer order; the model keeps it sorted (every use sorts it first)
ObsLevels(e, d) == IF d.fam = "req" /\ Len(e.lv) > 0 THEN [e.lv EXCEPT ![1] = SortSeq(@, LAMBDA x, y : x < y)] ELSE e.lv
\* a restored REQ sketch draws one fresh coin per compactor
ShRestored(d, cs) == IF d.sup /\ d.fam = "req" THEN [d EXCEPT !.lv = [h \in 1..Len(d.lv) |-> [d.lv[h] EXCEPT !.coin = IF h <= Len(cs) THEN cs[h] ELSE @]]] ELSE d
LevelsOK(e, d) == (CheckDesign /\ d.sup /\ Has(e, "lv")) =>
  /\ Chk("B:num-levels", IF d.fam = "kll" THEN Len(d.lv) = e.nl ELSE Len(ShLevels(d)) = Len(e.lv))
  /\ Chk("B:level-sizes", [h \in 1..Len(ShLevels(d)) |-> Len(ShLevels(d)[h])] = [h \in 1..Len(e.lv) |-> Len(e.lv[h])])
  /\ Chk("B:levels", ShLevels(d) = ObsLevels(e, d))
  /\ Chk("B:k", IF d.fam = "kll" THEN (e.est => d.minK = e.pk) ELSE d.k = e.k /\ d.n = e.n)
  /\ (Has(e, "caps") => Chk("B:level-capacities", [h \in 1..Len(d.lv) |-> KM!Cap(d.k, Len(d.lv), h - 1)] = e.caps))
  /\ (Has(e, "rq") =>
       /\ Chk("B:req-state", [h \in 1..Len(d.lv) |-> d.lv[h].state] = [h \in 1..Len(e.rq) |-> e.rq[h][1]])
       /\ Chk("B:section-size", [h \in 1..Len(d.lv) |-> <<d.lv[h].nsec, RM!SSize(d.lv[h])>>] = [h \in 1..Len(e.rq) |-> <<e.rq[h][2], e.rq[h][3]>>]))
CoinsOK(e, used) == CheckDesign => Chk("B:coins-consumed", used = Len(Coins(e)))

\* the published error comes from the published k, and that k covers every contributor of compacted data
Published(e, fam, c) ==
  /\ Chk("published-error-is-that-of-published-k", fam # "req" => e.epsD = e.epsPkD)
  /\ Chk("published-k<=smallest-contributing-k", PublishedKOK(fam, e.pk, c, e.est))
CkOf(i) == IF i \in DOMAIN ck THEN ck[i] ELSE Big
\* a REFUSED call (NaN update, invalid query, merge of an incompatible operand) leaves every observable of the target as it was:
\* n and the extremes (the ghost is not advanced), k, estimation mode, retained count, and the retained items with their weights
Unchanged(e, o) ==
  Chk("refused-call-leaves-target-unchanged",
      /\ e.n = o.n /\ e.k = o.k /\ e.est = o.est /\ e.nret = o.nret
      /\ (o.n > 0 => e.minD = o.minI /\ e.maxD = o.maxI)
      /\ ((Has(e, "pairs") /\ o.pairs # NoObs) => e.pairs = o.pairs))
TBegin == IsEvent("Begin") /\ obj' = <<>> /\ blob' = <<>> /\ ck' = <<>> /\ sh' = <<>>
TNew == IsEvent("New") /\ LET e == Log[l]  o == WithObs(Fresh(e.fam, e.k), Post(e)) IN
          /\ Named(o, e) /\ New(e.id, e.fam, Post(e)) /\ ck' = (e.id :> Big) @@ ck /\ UNCHANGED blob
          /\ sh' = ShSet((e.id :> ShNew(e)) @@ sh)
TUpdate == IsEvent("Update") /\ LET e == Log[l]  o == WithObs(AfterUpdate(obj[e.id], e.v), Post(e)) IN
          /\ Named(o, e) /\ Update(e.id, e.v, Post(e)) /\ TwinOK(e, o) /\ UNCHANGED blob
          /\ LET c == CkUpdate(CkOf(e.id), e.est, e.k) IN Published(e, o.fam, c) /\ ck' = (e.id :> c) @@ ck
          /\ LET r == ShUpdate(ShOf(e.id), e.v, Coins(e)) IN CoinsOK(e, r.used) /\ LevelsOK(e, r.d) /\ sh' = ShSet((e.id :> r.d) @@ sh)
TUpdateNaN == IsEvent("UpdateNaN") /\ LET e == Log[l]  o == WithObs(obj[e.id], Post(e)) IN
          \* NaN is rejected: n, extremes and retained count as before
          /\ Chk("nan-rejected", e.n = obj[e.id].n /\ e.nret = obj[e.id].nret)
          /\ Unchanged(e, obj[e.id]) /\ LevelsOK(e, ShOf(e.id))
          /\ Named(o, e) /\ Observe(e.id, Post(e)) /\ UNCHANGED <<blob, ck, sh>>
TMerge == IsEvent("Merge") /\ LET e == Log[l]  o == WithObs(AfterMerge(obj[e.dst], obj[e.src]), Post(e)) IN
          /\ Named(o, e) /\ Merge(e.dst, e.src, e.rv, Post(e)) /\ TwinOK(e, o) /\ UNCHANGED blob
          \* an EMPTY target comes out as the source: n and the extremes exactly (ghost clauses, every family).  The classic sketch
          \* moreover becomes a COPY of an ESTIMATING source - the same retained items, weights and k whatever the two k (equal, larger,
          \* smaller: an empty operand is never down-sampled).  (An exact source is streamed in item by item and KLL replays the source's
          \* level 0 through its own capacity schedule: both may compact with the target's k; nothing more is claimed there.)
          /\ Chk("merge-into-empty=source",
                 (o.fam = "classic" /\ obj[e.dst].n = 0 /\ obj[e.src].est /\ obj[e.src].pairs # NoObs)
                   => (e.pairs = obj[e.src].pairs /\ e.est /\ e.k = obj[e.src].k))
          /\ LET c == CkMerge(CkOf(e.dst), CkOf(e.src), e.est, e.k) IN Published(e, o.fam, c) /\ ck' = (e.dst :> c) @@ ck
          /\ LET r == ShMerge(ShOf(e.dst), ShOf(e.src), Coins(e)) IN CoinsOK(e, r.used) /\ LevelsOK(e, r.d) /\ sh' = ShSet((e.dst :> r.d) @@ sh)
TObs == IsEvent("Obs") /\ LET e == Log[l]  o == WithObs(obj[e.id], Post(e)) IN
          /\ Named(o, e) /\ Projection(e, o) /\ Observe(e.id, Post(e)) /\ TwinOK(e, o) /\ UNCHANGED <<blob, ck>>
          /\ Published(e, o.fam, CkOf(e.id))
          \* the levels are iterated before the sorted view is built, which then sorts level 0 in place
          /\ LevelsOK(e, ShOf(e.id)) /\ sh' = ShSet((e.id :> ShSorted(ShOf(e.id))) @@ sh)
TCopy == IsEvent("Copy") /\ LET e == Log[l] IN Copy(e.src, e.dst) /\ ck' = (e.dst :> CkOf(e.src)) @@ ck /\ UNCHANGED blob
          /\ sh' = ShSet((e.dst :> ShOf(e.src)) @@ sh)
\* type-converting copy to a wider item type with the same order: the same sketch (scalars, extremes through the ghost, pairs, levels)
TConvert == IsEvent("Convert") /\ LET e == Log[l]  o == WithObs(obj[e.src], Post(e)) IN
          /\ Named(o, e)
          /\ Chk("converting-copy=source", e.k = obj[e.src].k /\ e.est = obj[e.src].est /\ e.nret = obj[e.src].nret
                                           /\ (obj[e.src].pairs # NoObs => e.pairs = obj[e.src].pairs))
          /\ Chk("iteration-yields-num-retained", e.iterN = e.nret)
          /\ LevelsOK(e, ShOf(e.src))
          /\ obj' = (e.dst :> o) @@ obj /\ ck' = (e.dst :> CkOf(e.src)) @@ ck /\ sh' = ShSet((e.dst :> ShOf(e.src)) @@ sh) /\ UNCHANGED blob
\* ... under the reversed comparator a level that holds two different items is no longer sorted: the copy must be refused
TConvertReversed == IsEvent("ConvertReversed") /\ LET e == Log[l] IN
          /\ Chk("converting-copy-refuses-broken-order", e.distinct => e.threw)
          /\ UNCHANGED <<obj, blob, ck, sh>>
\* a strict prefix of an image must be rejected by the stream reader even when the user's serde does not check the stream (C11)
TTruncStream == IsEvent("TruncStream") /\ LET e == Log[l] IN
          /\ Chk("C11:truncated-stream-rejected", e.cut < e.size => e.threw)
          /\ UNCHANGED <<obj, blob, ck, sh>>
\* construction / assignment routes: a target of a different configuration copy- or move-assigned from the source (also from a
\* deserialize() temporary), or a new object copy- / move-constructed, IS the source: scalars, extremes (ghost), pairs, levels, image;
\* it then continues as the source's lock-step twin (TwinOK on every later event)
TAssign == IsEvent("Assign") /\ LET e == Log[l]  v == obj[e.src]  o == WithObs(v, Post(e))
                                  d == IF e.route = "move-assign-deserialized" THEN ShRestored(ShOf(e.src), Coins(e)) ELSE ShOf(e.src) IN
          /\ Named(o, e)
          /\ Chk("assigned-or-constructed=source", e.k = v.k /\ e.est = v.est /\ e.nret = v.nret /\ (v.pairs # NoObs => e.pairs = v.pairs))
          /\ Chk("assigned-or-constructed-image=source", e.img = e.srcimg)
          /\ Chk("iteration-yields-num-retained", e.iterN = e.nret)
          /\ LevelsOK(e, d)
          /\ obj' = (e.dst :> o) @@ obj /\ ck' = (e.dst :> CkOf(e.src)) @@ ck /\ sh' = ShSet((e.dst :> d) @@ sh) /\ UNCHANGED blob
\* an object obtained by any construction route must accept the operations the original accepts
TContinueFailed == IsEvent("ContinueFailed") /\ Chk("constructed-object-continues", FALSE) /\ UNCHANGED <<obj, blob, ck, sh>>
TDestroy == IsEvent("Destroy") /\ LET e == Log[l] IN Destroy(e.id) /\ UNCHANGED <<blob, ck, sh>>
\* invalid queries must throw: any query of an empty sketch, normalized rank outside [0,1], NaN / unsorted / repeated split points
\* after a refused call: the projection of the target is the one before the call (queries that build the sorted view sort level 0
\* in place, which the bag of pairs does not see; the tier-B shadow follows)
RefusedOK(e) == LET o == WithObs(obj[e.id], Post(e))  d == IF e.sorts /\ obj[e.id].n > 0 THEN ShSorted(ShOf(e.id)) ELSE ShOf(e.id) IN
          /\ Unchanged(e, obj[e.id]) /\ Named(o, e) /\ TwinOK(e, o) /\ LevelsOK(e, d)
          /\ Observe(e.id, Post(e)) /\ sh' = ShSet((e.id :> d) @@ sh) /\ UNCHANGED <<blob, ck>>
TInvalid == IsEvent("Invalid") /\ LET e == Log[l] IN
          /\ Chk("harness:empty-query-on-empty-sketch", e.onempty => obj[e.id].n = 0)
          /\ Chk("invalid-query-rejected", e.threw)
          /\ RefusedOK(e)
\* a merge the family must refuse (REQ: an operand of the other accuracy mode), offered to a live sketch that continues afterwards
TRefused == IsEvent("Refused") /\ LET e == Log[l] IN
          /\ Chk("incompatible-merge-refused", e.mustthrow => e.threw)
          /\ Chk("harness:refused-operand", e.threw \/ e.opn = 0)      \* only an empty operand may be accepted (and changes nothing)
          /\ RefusedOK(e)
TSer == IsEvent("Ser") /\ LET e == Log[l]  o == WithObs(obj[e.id], Post(e)) IN
          /\ Named(o, e) /\ Observe(e.id, Post(e))
          /\ Chk("C09:bytes=stream", e.img = e.simg)
          /\ Chk("C09:advertised-size", e.size = e.advertised)
          /\ Chk("C09:header", e.total = e.hdr + e.size)
          /\ TwinOK(e, o)
          /\ Chk("C09:twin-equal-image", (Has(e, "twinBlob") /\ o.fam # "req") => e.img = blob[e.twinBlob].img)
          /\ Published(e, o.fam, CkOf(e.id))
          /\ LevelsOK(e, ShSer(ShOf(e.id)))
          /\ blob' = (e.blob :> [val |-> o, img |-> e.img, size |-> e.size, ck |-> CkOf(e.id), sh |-> ShSer(ShOf(e.id))]) @@ blob
          /\ sh' = ShSet((e.id :> ShSer(ShOf(e.id))) @@ sh) /\ UNCHANGED ck
TDeser == IsEvent("Deser") /\ LET e == Log[l]  b == blob[e.blob]  v == b.val  o == WithObs(v, Post(e)) IN
          /\ Chk("C09:restored-scalars", e.n = v.n /\ e.k = v.k /\ e.est = v.est /\ e.nret = v.nret /\ (v.n > 0 => e.minD = v.minI /\ e.maxD = v.maxI))
          /\ Chk("C09:restored-pairs", e.pairs = v.pairs)
          /\ Chk("C09:restored-iteration", e.iterN = e.nret)
          /\ Chk("C09:consumed", e.consumed = b.size)
          /\ Chk("C09:reserialize", e.reimg = b.img)
          /\ Named(o, e)
          /\ Published(e, o.fam, b.ck)
          /\ LevelsOK(e, b.sh)
          /\ obj' = (e.dst :> o) @@ obj /\ ck' = (e.dst :> b.ck) @@ ck /\ sh' = ShSet((e.dst :> ShRestored(b.sh, Coins(e))) @@ sh) /\ UNCHANGED blob

TInit == obj = <<>> /\ l = 1 /\ blob = <<>> /\ ck = <<>> /\ sh = <<>>
TNext == TBegin \/ TNew \/ TUpdate \/ TUpdateNaN \/ TMerge \/ TObs \/ TCopy \/ TConvert \/ TConvertReversed \/ TTruncStream \/ TRefused \/ TAssign \/ TContinueFailed \/ TDestroy \/ TInvalid \/ TSer \/ TDeser
TSpec == TInit /\ [][TNext]_tvars
\* cheap per-state invariant (the clauses are evaluated by name at every event)
TInv == TRUE
====
