---- MODULE MC_XIter ----
(***************************************************************************)
(* X07 - the protocol as a state machine over a sequence S of entries:     *)
(* one iterator `it`, the iterators saved from `prev = it++` (each with    *)
(* the position it must denote), and the entries read so far through       *)
(* `*it++`.  PostfixReturns = "value": the returned iterator is an object  *)
(* of its own.  PostfixReturns = "reference": it refers to a temporary     *)
(* that is dead when the caller reads it - modelled by letting the read    *)
(* yield ANY position (what the shipped operators of kll / req / quantiles *)
(* / density / ebpps / var_opt did: undefined behaviour); TLC must then    *)
(* report a violation (negative configuration).                            *)
(***************************************************************************)
EXTENDS XIter
CONSTANTS Entries, MaxLen, PostfixReturns
VARIABLES S, it, saved, readByPost
vars == <<S, it, saved, readByPost>>
RECURSIVE SeqsUpTo(_)
SeqsUpTo(n) == IF n = 0 THEN {<<>>} ELSE LET T == SeqsUpTo(n - 1) IN T \cup {Append(s, x) : s \in {t \in T : Len(t) = n - 1}, x \in Entries}
Positions == 0..MaxLen

Init == S \in SeqsUpTo(MaxLen) /\ it = 0 /\ saved = <<>> /\ readByPost = <<>>
\* what the caller gets from it++: the old position, or - through a dangling reference - anything
Returned(old) == IF PostfixReturns = "value" THEN {old} ELSE 0..Len(S)
PostInc == /\ it < Len(S)
           /\ \E r \in Returned(it) :
                /\ saved' = Append(saved, [want |-> it, got |-> r])
                /\ readByPost' = Append(readByPost, IF r < Len(S) THEN S[r + 1] ELSE "invalid")
           /\ it' = it + 1 /\ UNCHANGED S
PreInc == it < Len(S) /\ it' = it + 1 /\ UNCHANGED <<S, saved, readByPost>>
Rewind == it = Len(S) /\ it' = 0 /\ saved' = <<>> /\ readByPost' = <<>> /\ UNCHANGED S
Next == PostInc \/ PreInc \/ Rewind
Spec == Init /\ [][Next]_vars

\* every saved `prev` still denotes the old position, whatever `it` did afterwards, and dereferences to the old entry
SavedStayValid == \A i \in DOMAIN saved : saved[i].got = saved[i].want /\ saved[i].got < Len(S)
\* a full traversal by *it++ alone reads exactly S
PostfixReadsS == (it = Len(S) /\ Len(readByPost) = Len(S)) => readByPost = S
\* begin() == end() iff nothing is retained; a traversal ends after exactly Len(S) increments
Ends == it <= Len(S) /\ ((0 = Len(S)) = (S = <<>>))
====
