\* model of the REPAIRED code (dirty marker written through by update; query_and_update keeps a dirty count dirty;
\* union/intersect/invert refuse read-only views): must refine the contract.  <= 7 calls, 2 filter slots (thorough tier).
SPECIFICATION MCSpecR
CONSTANTS FltIds = {f1, f2}
 MemIds = {1}
 Cfgs <- MCCfgs
 Items <- MCItems
 MaxCalls = 7
 WriteDirtyThrough = TRUE
 QauKeepsDirty = TRUE
 RoCheckSetOps = TRUE
 RemarkWhenDirty = TRUE
SYMMETRY Sym
INVARIANT CountOK CInv
CONSTRAINT MCBound
VIEW NoOut
CHECK_DEADLOCK FALSE
