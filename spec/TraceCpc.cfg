SPECIFICATION TSpec
CONSTANTS Ids = {} UIds = {} BIds = {} LgKs = {} Cells = {}
POSTCONDITION Accepted
CHECK_DEADLOCK FALSE
