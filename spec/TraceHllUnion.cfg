\* job hllunion (C04, C06): sketch-level clauses are C03's (prefix), C09 clauses not enforced here
SPECIFICATION TUSpec
CONSTANTS Ids = {} LgKs = {} Coupons = {} Bigs = {} TrackFed = FALSE CheckDesign = FALSE Strict09 = FALSE SkPrefix = "C03:"
INVARIANT TInv
POSTCONDITION Accepted
CHECK_DEADLOCK FALSE
