SPECIFICATION Spec
CONSTANTS LgK = 2
 LgRf = 2
 MaxHash = 9
 StartTheta = 7
 MinLgK = 1
 RebuildPivot = 5
INVARIANT Sample CInv
PROPERTY Refines
CHECK_DEADLOCK FALSE
