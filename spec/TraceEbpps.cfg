SPECIFICATION TSpec
CONSTANTS Ids = {} Items = {} Wts = {} Ks = {} MaxN = 0 ResetInNext = FALSE
POSTCONDITION Accepted
CHECK_DEADLOCK FALSE
