---- MODULE FreqItemsMech ----
(***************************************************************************)
(* The mechanism of reverse_purge_hash_map / frequent_items_sketch as pure *)
(* operators (no constants, no variables), shared by the design model      *)
(* FreqItemsDesign (model checking, behaviour generation) and by the       *)
(* tier-B configuration of the trace specification TraceFreqItems.         *)
(* A map state is a record with at least the fields                        *)
(*    cnt : Item -|-> Nat+ , lgCur, lgMax, offset                          *)
(* Code constants (fi/include): LOAD_FACTOR = 0.75, LG_MIN_MAP_SIZE = 3    *)
(* (a parameter here: small models lower it), MAX_SAMPLE_SIZE = 1024.      *)
(***************************************************************************)
EXTENDS Naturals, FiniteSets, Sequences, TLC
LOCAL MGet(f, x) == IF x \in DOMAIN f THEN f[x] ELSE 0
MAdd(f, x, w) == IF x \in DOMAIN f THEN [f EXCEPT ![x] = @ + w] ELSE f @@ (x :> w)
MMax2(a, b) == IF a >= b THEN a ELSE b
Cap(lg) == (3 * 2^lg) \div 4                 \* get_capacity(): static_cast<uint32_t>((1 << lg) * 0.75)
SampleSize == 1024                           \* MAX_SAMPLE_SIZE
CodeLgMin == 3                               \* LG_MIN_MAP_SIZE
StartLg(lgStart, lgMin) == MMax2(lgStart, lgMin)   \* constructor: std::max(lg_start_map_size, LG_MIN_MAP_SIZE)

\* purge(): element of 0-based index floor(n/2) of the ascending sequence of the sampled counter values.  The sample is the
\* first min(1024, n) active slots in table order: all of them - hence a function of the counters alone - while n <= 1024
Median(c) == LET n == Cardinality(DOMAIN c)  k == n \div 2 IN
  CHOOSE v \in {c[x] : x \in DOMAIN c} :
     /\ Cardinality({x \in DOMAIN c : c[x] < v}) <= k
     /\ Cardinality({x \in DOMAIN c : c[x] <= v}) > k
\* hint: the amount actually subtracted, used only where the sample is a proper subset (n > 1024: hash dependent)
PurgeAmount(c, hint) == IF Cardinality(DOMAIN c) <= SampleSize THEN Median(c) ELSE hint

\* adjust_or_insert + resize_or_purge_if_needed: only a NEW key can exceed the capacity; then the table doubles while
\* lgCur < lgMax, else purge: subtract the amount from every counter, drop the non-positive ones, offset += amount
InsH(s, x, w, hint) ==
  LET c1 == MAdd(s.cnt, x, w) IN
  IF x \in DOMAIN s.cnt \/ Cardinality(DOMAIN c1) <= Cap(s.lgCur) THEN [s EXCEPT !.cnt = c1]
  ELSE IF s.lgCur < s.lgMax THEN [s EXCEPT !.cnt = c1, !.lgCur = @ + 1]
  ELSE LET m == PurgeAmount(c1, hint) IN
       [s EXCEPT !.cnt = [y \in {z \in DOMAIN c1 : c1[z] > m} |-> c1[y] - m], !.offset = @ + m]
Ins(s, x, w) == InsH(s, x, w, 0)

\* merge(other): other's counters replayed through update() in other's table order, then offset += other.offset
RECURSIVE Replay(_, _, _)
Replay(s, order, c) == IF order = <<>> THEN s ELSE Replay(Ins(s, Head(order), c[Head(order)]), Tail(order), c)
MergeMaps(s, order, pc, poffset) == [Replay(s, order, pc) EXCEPT !.offset = @ + poffset]
====
