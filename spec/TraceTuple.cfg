SPECIFICATION TSpec
CONSTANTS Ids = {} Hashes = {} Ks = {} Starts = {} MaxH = 0
POSTCONDITION Accepted
CHECK_DEADLOCK FALSE
