---- MODULE MC_VarOpt ----
\* bounded instance of the multi-object VarOpt contract
EXTENDS VarOpt
CONSTANTS MaxObjN, MaxUnN
Bound == /\ \A i \in Live : obj[i].n <= MaxObjN
         /\ \A u \in ULive : un[u].n <= MaxUnN
====
