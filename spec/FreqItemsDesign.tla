---- MODULE FreqItemsDesign ----
(***************************************************************************)
(* Tier B design model of frequent_items_sketch / reverse_purge_hash_map   *)
(* (fi/include/frequent_items_sketch_impl.hpp, reverse_purge_hash_map_impl *)
(* .hpp): insert or adjust a counter; when a NEW key makes the number of   *)
(* active entries exceed floor(0.75 * 2^lgCur): double the table while     *)
(* lgCur < lgMax, else purge: m = element of index floor(n/2) of the       *)
(* sorted counter values (std::nth_element over min(1024, n) samples: all  *)
(* of them, hence deterministic, while n <= 1024), subtract m from every   *)
(* counter, drop the non-positive ones, offset += m.  merge(other) replays *)
(* other's counters in other's table order (hash dependent: any order is   *)
(* explored), then offset += other.offset, total := total + other.total.   *)
(*                                                                         *)
(* EmptyTest selects what merge() tests to skip an "empty" other:          *)
(*   "weight" : other.total = 0        (the proposed fix, fi_empty_map)    *)
(*   "rows"   : no active rows         (pinned tree: is_empty(); a purge   *)
(*              can empty the map while total/offset > 0, so the merge     *)
(*              loses other's weight and offset - negative config)         *)
(* TLC checks that the model refines the contract FreqItems for every      *)
(* history within the bounds (PROPERTY Refines, INVARIANT CInv).           *)
(***************************************************************************)
EXTENDS Naturals, FiniteSets, Sequences, TLC
CONSTANTS Ids, Items, Weights, LgMaxs, MaxTotal,
          LgMin,        \* code: LG_MIN_MAP_SIZE = 3 (lowered in small models); start size = max(lgStart, LgMin)
          EmptyTest     \* "weight" | "rows"
VARIABLE obj
dvars == <<obj>>

Live == DOMAIN obj
Get(f, x) == IF x \in DOMAIN f THEN f[x] ELSE 0
Add(f, x, w) == IF x \in DOMAIN f THEN [f EXCEPT ![x] = @ + w] ELSE f @@ (x :> w)
Plus(f, g) == [x \in DOMAIN f \cup DOMAIN g |-> Get(f, x) + Get(g, x)]
Min2(a, b) == IF a <= b THEN a ELSE b
Max2(a, b) == IF a >= b THEN a ELSE b
\* the mechanism itself (capacity, median, insert / resize / purge, merge replay) is the shared module FreqItemsMech
INSTANCE FreqItemsMech

RECURSIVE Perms(_)
Perms(S) == IF S = {} THEN {<<>>} ELSE UNION {{<<x>> \o p : p \in Perms(S \ {x})} : x \in S}

Init == obj = <<>>
New(i, lg, lgStart) ==
  /\ i \notin Live /\ lgStart <= lg
  /\ obj' = (i :> [lgMax |-> Max2(lg, LgMin), lgCur |-> StartLg(lgStart, LgMin), cnt |-> <<>>, offset |-> 0, total |-> 0,
                   truth |-> <<>>, lgLo |-> Max2(lg, LgMin), lgHi |-> Max2(lg, LgMin)]) @@ obj
Update(i, x, w) ==
  /\ i \in Live
  /\ IF w = 0 THEN UNCHANGED obj
     ELSE LET o == obj[i]  s == Ins(o, x, w) IN
          obj' = [obj EXCEPT ![i] = [s EXCEPT !.total = @ + w, !.truth = Add(@, x, w)]]
OtherIsEmpty(p) == IF EmptyTest = "rows" THEN DOMAIN p.cnt = {} ELSE p.total = 0
Merge(i, j, order) ==
  /\ i \in Live /\ j \in Live /\ i # j
  /\ LET o == obj[i]  p == obj[j]
         \* the mechanism
         real == IF OtherIsEmpty(p) THEN o
                 ELSE [MergeMaps(o, order, p.cnt, p.offset) EXCEPT !.total = o.total + p.total]
     IN \* the ghosts record what was offered, whatever the mechanism did with it
        obj' = [obj EXCEPT ![i] = IF p.total = 0 THEN real
                                  ELSE [real EXCEPT !.truth = Plus(o.truth, p.truth),
                                                    !.lgLo = Min2(@, p.lgLo), !.lgHi = Max2(@, p.lgHi)]]
Destroy(i) == i \in Live /\ obj' = [x \in Live \ {i} |-> obj[x]]

Next == \E i \in Ids :
          \/ \E lg \in LgMaxs, st \in 0..3 : New(i, lg, st)
          \/ \E x \in Items, w \in Weights \cup {0} : Update(i, x, w)
          \/ \E j \in Ids : j \in Live /\ \E order \in Perms(DOMAIN obj[j].cnt) : Merge(i, j, order)
          \/ Destroy(i)
Spec == Init /\ [][Next]_dvars

RECURSIVE SumT(_)
SumT(S) == IF S = {} THEN 0 ELSE LET i == CHOOSE j \in S : TRUE IN obj[i].total + SumT(S \ {i})
Bound == SumT(Live) <= MaxTotal

\* representation invariants of the mechanism
DInv == \A i \in Live : LET o == obj[i] IN
          /\ o.lgCur <= o.lgMax
          /\ Cardinality(DOMAIN o.cnt) <= Cap(o.lgCur)
          /\ \A x \in DOMAIN o.cnt : o.cnt[x] >= 1

\* refinement mapping: forget lgCur
Proj(o) == [lgMax |-> o.lgMax, lgLo |-> o.lgLo, lgHi |-> o.lgHi, cnt |-> o.cnt, offset |-> o.offset, total |-> o.total,
            truth |-> o.truth]
C == INSTANCE FreqItems WITH obj <- [i \in DOMAIN obj |-> Proj(obj[i])], WideNums <- FALSE
\* every design step is a contract step whose free outcome (rows', offset') is the design's own post-state
RefStep == \/ \E i \in Ids, lg \in LgMaxs \cup {LgMin} : i \notin Live /\ C!New(i, lg)
           \/ \E i \in Live \cap DOMAIN obj', x \in Items, w \in Weights : C!Update(i, x, w, obj'[i].cnt, obj'[i].offset)
           \/ \E i \in Live \cap DOMAIN obj', j \in Live : C!Merge(i, j, obj'[i].cnt, obj'[i].offset)
           \/ \E i \in Live : C!Destroy(i)
Refines == [][RefStep]_dvars
CInv == C!Inv
====
