---- MODULE MC_XBits ----
(***************************************************************************)
(* X08 - exhaustive model for small widths: the algorithm of pack_bits /   *)
(* unpack_bits transcribed on byte sequences (tier B) against the contract *)
(* XBits, for every width 1..MaxW, every value of that width, every offset *)
(* 0..7 and three states of the first destination byte (zero, bits before  *)
(* the offset set, all bits set), with canary bytes around; and the        *)
(* contract against the layout definition of spec/Layout.tla (BitsMSB /    *)
(* PackBits: the compressed theta image) for two values packed in sequence. *)
(* FieldAlways (the field is right even when the rest of the first byte    *)
(* was not zero) is FALSE: negative configuration - it documents the       *)
(* precondition of the OR into the first byte.                             *)
(***************************************************************************)
EXTENDS XBits
L == INSTANCE Layout
CONSTANT MaxW
VARIABLES eb, off, v, first, v2
vars == <<eb, off, v, first, v2>>

Bit(x, k) == (x \div (2 ^ k)) % 2
Or8(a, b) == LET m(k) == IF Bit(a, k) = 1 \/ Bit(b, k) = 1 THEN 2 ^ k ELSE 0 IN m(0) + m(1) + m(2) + m(3) + m(4) + m(5) + m(6) + m(7)
Limbs(x) == <<0, 0, x \div 65536, x % 65536>>
Canary == 165
\* destination: canary, first byte, three bytes of 255 (never pre-zeroed), canary
Dest == <<Canary, first, 255, 255, 255, Canary>>

\* ---- the code: pack_bits
RECURSIVE WholeBytes(_, _, _, _)
WholeBytes(buf, p, bits, x) == IF bits >= 8 THEN WholeBytes([buf EXCEPT ![p] = (x \div (2 ^ (bits - 8))) % 256], p + 1, bits - 8, x)
                               ELSE IF bits > 0 THEN [b |-> [buf EXCEPT ![p] = (x * (2 ^ (8 - bits))) % 256], p |-> p, ret |-> bits]
                               ELSE [b |-> buf, p |-> p, ret |-> 0]
CodePack(buf, p, o, bits, x) ==
  IF o > 0 THEN
    LET chunk == 8 - o  mask == 2 ^ chunk - 1 IN
    IF bits < chunk THEN [b |-> [buf EXCEPT ![p] = Or8(@, (x * (2 ^ (chunk - bits))) % (mask + 1))], p |-> p, ret |-> o + bits]
    ELSE WholeBytes([buf EXCEPT ![p] = Or8(@, (x \div (2 ^ (bits - chunk))) % (mask + 1))], p + 1, bits - chunk, x)
  ELSE WholeBytes(buf, p, bits, x)
\* ---- the code: unpack_bits
RECURSIVE ReadWhole(_, _, _, _)
ReadWhole(buf, p, bits, acc) == IF bits >= 8 THEN ReadWhole(buf, p + 1, bits - 8, acc * 256 + buf[p])
                                ELSE IF bits > 0 THEN [v |-> acc * (2 ^ bits) + buf[p] \div (2 ^ (8 - bits)), p |-> p, ret |-> bits]
                                ELSE [v |-> acc, p |-> p, ret |-> -1]
CodeUnpack(buf, p, o, bits) ==
  LET avail == 8 - o  chunk == IF avail < bits THEN avail ELSE bits
      acc == (buf[p] \div (2 ^ (avail - chunk))) % (2 ^ chunk)
      p1 == IF avail = chunk THEN p + 1 ELSE p
      r == ReadWhole(buf, p1, bits - chunk, acc)
  IN [v |-> r.v, p |-> r.p, ret |-> IF r.ret = -1 THEN (o + chunk) % 8 ELSE r.ret]

Firsts(o) == {0, 256 - 2 ^ (8 - o), 255}        \* zero / the bits before the offset set / everything set
Init == /\ eb \in 1..MaxW /\ off \in 0..7 /\ v \in 0..(2 ^ eb - 1) /\ first \in Firsts(off) /\ v2 \in {0, 2 ^ eb - 1, (2 ^ eb) \div 3}
Next == UNCHANGED vars
Spec == Init /\ [][Next]_vars

R == CodePack(Dest, 2, off, eb, v)
PackConforms == PackOK(Dest, R.b, 2, off, eb, Limbs(v), R.ret, R.p - 2)
RoundTrip == TailZero(Dest, 2, off) => LET u == CodeUnpack(R.b, 2, off, eb) IN u.v = v /\ u.ret = R.ret /\ u.p = R.p /\ UnpackOK(R.b, 2, off, eb, Limbs(u.v), u.ret, u.p - 2)
\* two values packed in sequence from offset 0 are the bytes spec/Layout.tla defines for the compressed image
SequenceIsLayout ==
  (off = 0 /\ first = 0) =>
    LET r1 == CodePack(Dest, 2, 0, eb, v)  r2 == CodePack(r1.b, r1.p, r1.ret, eb, v2)
        want == L!PackBits(L!BitsMSB(v, eb) \o L!BitsMSB(v2, eb))
    IN \A t \in 1..Len(want) : r2.b[1 + t] = want[t]
FieldAlways == \A i \in 1..eb : StreamBit(R.b, 2, off + i - 1) = FieldBit(Limbs(v), eb, i)
====
