\* X07: sequences of up to 3 entries over {a, b}: a postfix increment that returns a value keeps every saved iterator valid
SPECIFICATION Spec
CONSTANTS Entries = {"a", "b"} MaxLen = 3 PostfixReturns = "value"
INVARIANT SavedStayValid
INVARIANT PostfixReadsS
INVARIANT Ends
CHECK_DEADLOCK FALSE
