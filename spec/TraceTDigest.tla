---- MODULE TraceTDigest ----
(***************************************************************************)
(* Trace validation of recorded executions of tdigest<double> and          *)
(* tdigest<float> against the TDigest contract (C17) and the Serde clauses *)
(* of C09.  One successor per event: every free choice of the contract     *)
(* (whether a call compressed, and to which centroid sequence) is bound to *)
(* the logged post-state.  All doubles are order-isomorphically renamed    *)
(* (D ranks); zero/one are the renamed constants 0.0 and 1.0.              *)
(***************************************************************************)
EXTENDS TDigest, TraceCommon
VARIABLES blob, cst, stat
tvars == <<obj, l, blob, cst, stat>>

Srt(s) == SortSeq(s, <)
\* "non-decreasing" is judged up to rounding: the harness reports the largest decrease between consecutive answers in
\* units in the last place of the answer type (maxdrop, 0 = none); a decrease of at most UlpTol ulps is not a decrease
UlpTol == 4
\* did the logged call compress?  the harness logs the centroid list whenever it changed
Comp(e) == Has(e, "cent")
NC(e) == IF Has(e, "cent") THEN e.cent ELSE <<>>

\* named versions of the guards of the contract's compress, so that a rejection names the clause
CompChk(o, in, nc) ==
  /\ Chk("weights-positive", o.inf \/ \A j \in 1..Len(nc) : nc[j].w > 0)
  /\ Chk("sorted", o.inf \/ SortedCent(nc))
  /\ Chk("coarsening", o.inf \/ \A s \in {ByMean(in)} : IsCoarsening(s, nc))
  /\ Chk("centroid-bound", o.inf \/ Len(nc) <= o.cap)

\* cheap getters logged on every event against the model
Scalars(e, o) ==
  /\ Chk("total-weight", e.total = o.total)
  /\ Chk("empty", e.empty = (o.total = 0))
  /\ Chk("min", o.total > 0 => e.min = o.minD)
  /\ Chk("max", o.total > 0 => e.max = o.maxD)
  /\ Chk("num-centroids", e.nc = Len(o.cent))
  /\ Chk("num-buffered", e.nb = Len(o.buf))
  /\ Chk("centroid-bound", o.inf \/ e.nc <= o.cap)          \* at every event: never more centroids than the reported capacity

\* full projection r of a real object against a model value o
ProjOK(r, o) ==
  /\ Chk("k", r.k = o.k /\ r.cap = o.cap)
  /\ Chk("total-weight", r.total = o.total)
  /\ Chk("empty", r.empty = (o.total = 0))
  /\ Chk("min", o.total > 0 => r.min = o.minD)
  /\ Chk("max", o.total > 0 => r.max = o.maxD)
  /\ Chk("centroids", r.cent = o.cent)
  /\ Chk("centroid-bound", o.inf \/ Len(r.cent) <= r.cap)
  /\ Chk("buffer", Srt(r.buf) = Srt(o.buf))
  /\ Chk("weight-sum", r.total = SumW(r.cent) + Len(r.buf))
\* an image of a single value does not say whether the value was buffered: at that moment both forms are the same sketch
\* (same items, same answers), so a restored object may show either
Norm(o) == IF o.total = 1 THEN [o EXCEPT !.cent = <<[m |-> o.minD, w |-> 1]>>, !.buf = <<>>] ELSE o
\* logical content: configuration, weight, extremes and the multiset of retained (mean, weight) items - NOT whether a
\* weight-1 item currently sits in the buffer or in the centroid list
Content(o) == SortSeq(Items(o), LAMBDA x, y : x.m < y.m \/ (x.m = y.m /\ x.w < y.w))
Same(a, b) == /\ a.k = b.k /\ a.total = b.total /\ a.minD = b.minD /\ a.maxD = b.maxD
              /\ Content(a) = Content(b)

\* side effect of an observer: compressed to the logged centroid list, or nothing
SideEffect(i, e) == IF Comp(e) THEN CompChk(obj[i], Items(obj[i]), e.cent) /\ Compress(i, e.cent)
                    ELSE UNCHANGED obj

TBegin == IsEvent("Begin") /\ LET e == Log[l] IN
            /\ obj' = <<>> /\ blob' = <<>> /\ cst' = [zero |-> e.zero, one |-> e.one]
            /\ stat' = [sum |-> 0, probes |-> 0, trials |-> 0, wide |-> <<>>]
TNew == IsEvent("New") /\ LET e == Log[l] IN
            /\ New(e.id, e.k, e.cap) /\ Scalars(e, obj'[e.id]) /\ UNCHANGED <<blob, cst, stat>>

\* a batch of updates; the harness ends a batch at the first call that compressed, so only the last one may have
TUpdate == IsEvent("Update") /\ LET e == Log[l]
                                    o1 == Buffer(obj[e.id], SubSeq(e.vs, 1, Len(e.vs) - 1)) IN
            /\ (Comp(e) => CompChk(o1, Items(o1), e.cent))
            /\ UpdateMany(e.id, e.vs, Comp(e), NC(e))
            /\ Scalars(e, obj'[e.id]) /\ UNCHANGED <<blob, cst, stat>>
TUpdateNaN == IsEvent("UpdateNaN") /\ LET e == Log[l] IN
            /\ UpdateNaN(e.id) /\ Scalars(e, obj[e.id]) /\ UNCHANGED <<blob, cst, stat>>
TUpdateInf == IsEvent("UpdateInf") /\ LET e == Log[l] IN
            /\ UpdateInf(e.id, e.v, e.total # obj[e.id].total, e.nb # Len(obj[e.id].buf) + 1, e.cent)
            /\ Chk("total-weight", e.total = obj'[e.id].total)
            /\ Chk("min", e.min = obj'[e.id].minD) /\ Chk("max", e.max = obj'[e.id].maxD)
            /\ UNCHANGED <<blob, cst, stat>>
TCompress == IsEvent("Compress") /\ LET e == Log[l] IN
            /\ SideEffect(e.id, e) /\ Scalars(e, obj'[e.id]) /\ UNCHANGED <<blob, cst, stat>>
TMerge == IsEvent("Merge") /\ LET e == Log[l]  a == obj[e.dst]  b == obj[e.src] IN
            /\ (b.total > 0 => CompChk([a EXCEPT !.inf = a.inf \/ b.inf], Items(a) \o Items(b), NC(e)))
            /\ Merge(e.dst, e.src, IF b.total > 0 THEN NC(e) ELSE <<>>)
            /\ Chk("merge-unchanged-if-empty", b.total = 0 => ~Comp(e))
            /\ Scalars(e, obj'[e.dst]) /\ UNCHANGED <<blob, cst, stat>>

TSelfMerge == IsEvent("SelfMerge") /\ LET e == Log[l]  a == obj[e.id] IN
            /\ (a.total > 0 => CompChk(a, Items(a) \o Items(a), NC(e)))
            /\ MergeSelf(e.id, IF a.total > 0 THEN NC(e) ELSE <<>>)
            /\ Scalars(e, obj'[e.id]) /\ UNCHANGED <<blob, cst, stat>>
\* the same queries on copies of one sketch, a different query going first on each copy: the answers must not depend on the order
\* (qs[c], rs[c]: quantiles at ps / ranks at xs from copy c); and quantile(0) = min, quantile(1) = max whichever ran first
TOrderProbe == IsEvent("OrderProbe") /\ LET e == Log[l]  o == obj[e.id] IN
            /\ Chk("query-finite", e.nnan = 0)
            /\ Chk("query-order-independent", /\ \A c \in 2..Len(e.qs) : e.qs[c] = e.qs[1]
                                               /\ \A d \in 2..Len(e.rs) : e.rs[d] = e.rs[1])
            /\ Chk("quantile-ends", QuantEnds(o, e.ps, e.qs[1], cst.zero, cst.one))
            /\ Chk("quantile-range", QuantRange(o, e.qs[1]))
            /\ UNCHANGED <<obj, blob, cst, stat>>
TRankGrid == IsEvent("RankGrid") /\ LET e == Log[l] IN
            /\ SideEffect(e.id, e)
            /\ LET o == obj'[e.id] IN
               /\ Scalars(e, o)
               /\ Chk("rank-finite", e.nnan = 0)
               /\ Chk("rank-range", RankRange(e.rs, cst.zero, cst.one))
               /\ Chk("rank-below-min", RankBelowMin(o, e.xs, e.rs, cst.zero))
               /\ Chk("rank-above-max", RankAboveMax(o, e.xs, e.rs, cst.one))
               /\ Chk("rank-monotone", AscS(e.xs) /\ Len(e.rs) = Len(e.xs) /\ (NonDecS(e.rs) \/ e.maxdrop <= UlpTol))
            /\ UNCHANGED <<blob, cst, stat>>
TQuantGrid == IsEvent("QuantGrid") /\ LET e == Log[l] IN
            /\ SideEffect(e.id, e)
            /\ LET o == obj'[e.id] IN
               /\ Scalars(e, o)
               /\ Chk("quantile-finite", e.nnan = 0)
               /\ Chk("quantile-range", QuantRange(o, e.qs))
               /\ Chk("quantile-ends", QuantEnds(o, e.ps, e.qs, cst.zero, cst.one))
               /\ Chk("quantile-monotone", AscS(e.ps) /\ Len(e.qs) = Len(e.ps) /\ (NonDecS(e.qs) \/ e.maxdrop <= UlpTol))
            /\ UNCHANGED <<blob, cst, stat>>
TCdf == IsEvent("Cdf") /\ LET e == Log[l] IN
            /\ SideEffect(e.id, e)
            /\ Scalars(e, obj'[e.id])
            /\ Chk("cdf-finite", e.nnan = 0)
            /\ Chk("cdf-is-rank", CdfIsRank(e.cdf, e.ranks, cst.one))
            /\ Chk("cdf-monotone", NonDecS(e.cdf) \/ e.maxdrop <= UlpTol)
            /\ Chk("pmf-is-cdf-difference", e.pmf = e.pmfref)
            /\ Chk("pmf-nonnegative", e.maxdrop > 0 \/ \A x \in 1..Len(e.pmf) : e.pmf[x] >= cst.zero)
            /\ UNCHANGED <<blob, cst, stat>>
\* documented: rank / quantile / PMF / CDF / min / max of an empty sketch throw
TEmptyQuery == IsEvent("EmptyQuery") /\ LET e == Log[l] IN
            /\ Chk("empty-model", obj[e.id].total = 0)
            /\ Chk("empty-throws", \A x \in 1..Len(e.threw) : e.threw[x])
            /\ UNCHANGED <<obj, blob, cst, stat>>
\* arguments outside the documented domain are refused: NaN value, rank outside [0,1], split points not increasing / NaN
TBadQuery == IsEvent("BadQuery") /\ LET e == Log[l] IN
            /\ SideEffect(e.id, e)          \* (a probe that is not refused may compress like any query)
            /\ Chk("invalid-throws", \A x \in 1..Len(e.threw) : e.threw[x])
            /\ Scalars(e, obj'[e.id])
            /\ UNCHANGED <<blob, cst, stat>>
TObs == IsEvent("Obs") /\ LET e == Log[l] IN
            /\ ProjOK(e.r, obj[e.id]) /\ UNCHANGED <<obj, blob, cst, stat>>
TCopy == IsEvent("Copy") /\ LET e == Log[l] IN
            /\ Copy(e.src, e.dst) /\ ProjOK(e.r, obj'[e.dst]) /\ UNCHANGED <<blob, cst, stat>>

\* serialize(header, with_buffer): without the buffer the call compresses first (side effect)
TSer == IsEvent("Ser") /\ LET e == Log[l] IN
            /\ SideEffect(e.src, e)
            /\ Scalars(e, obj'[e.src])
            /\ Chk("C09:no-crash", ~e.crashed)
            /\ Chk("C09:header", e.bytes = e.hdr + e.size)
            /\ Chk("C09:header-same-image", e.himg = e.img)
            /\ Chk("C09:bytes=stream", e.img = e.simg)
            /\ Chk("C09:advertised-size", e.size = e.advertised)
            /\ Chk("C09:buffer-kept", e.wb \/ Len(obj'[e.src].buf) = 0)
            /\ blob' = (e.blob :> [st |-> obj'[e.src], img |-> e.img, size |-> e.size]) @@ blob
            /\ UNCHANGED <<cst, stat>>
TDeser == IsEvent("Deser") /\ LET e == Log[l]  b == blob[e.blob]
                                  st == IF b.st.total = 1 /\ e.r.nb = 0 THEN Norm(b.st) ELSE b.st IN
            /\ ProjOK(e.r, st)
            /\ Chk("C09:consumed", e.consumed = b.size)
            /\ Chk("C09:reserialize", e.reimg = b.img)
            /\ obj' = (e.dst :> st) @@ obj
            /\ UNCHANGED <<blob, cst, stat>>
\* the same operations were applied to an original and to the sketch restored from its image: still the same sketch
TTwin == IsEvent("Twin") /\ LET e == Log[l] IN
            /\ Chk("C09:lockstep", Same(obj[e.a], obj[e.b]))
            /\ UNCHANGED <<obj, blob, cst, stat>>
\* an image in one of the two formats of the reference implementation (read-only input); src = its content
\* decoded by the harness from the documented big-endian layout
TRefImage == IsEvent("RefImage") /\ LET e == Log[l]  s == e.src  tw == SumW(s.cent)
                                        o == IF tw = 0 THEN Fresh(s.k, e.r.cap)      \* an empty digest
                                             ELSE [Fresh(s.k, e.r.cap) EXCEPT !.cent = s.cent, !.total = tw,
                                                     !.minD = s.min, !.maxD = s.max,
                                                     !.g = [cnt |-> tw, lo |-> s.min, hi |-> s.max]] IN
            /\ Chk("C09:ref-image", /\ e.r.k = s.k /\ e.r.total = tw /\ e.r.cent = s.cent /\ e.r.buf = <<>>
                                    /\ e.r.empty = (tw = 0)
                                    /\ (tw > 0 => e.r.min = s.min /\ e.r.max = s.max))
            /\ Chk("C09:ref-consumed", e.consumed = e.size)
            /\ obj' = (e.dst :> o) @@ obj
            /\ UNCHANGED <<blob, cst, stat>>

\* accuracy on long streams: per probe a cap, over a batch of trials the mean of the normalized error
RECURSIVE SumRatio(_, _, _, _, _)
SumRatio(errs, q4, k, n, x) == IF x > Len(errs) THEN 0 ELSE Ratio100(errs[x], q4[x], k, n) + SumRatio(errs, q4, k, n, x + 1)
TTrial == IsEvent("Trial") /\ LET e == Log[l] IN
            /\ Chk("accuracy-cap", \A x \in 1..Len(e.q4) : /\ Ratio100(e.rerr7[x], e.q4[x], e.k, e.n) <= 4000
                                                            /\ Ratio100(e.qerr7[x], e.q4[x], e.k, e.n) <= 4000)
            /\ stat' = [stat EXCEPT !.sum = @ + SumRatio(e.rerr7, e.q4, e.k, e.n, 1) + SumRatio(e.qerr7, e.q4, e.k, e.n, 1),
                                    !.probes = @ + 2 * Len(e.q4), !.trials = @ + 1]
            /\ UNCHANGED <<obj, blob, cst>>
\* mean normalized error <= 2.5: calibrated mean 0.45 (sd 0.9 per probe, <= 1.2 per trial mean) + 6 standard errors of a
\* mean over >= 40 trials (6 * 1.2 / sqrt(40) = 1.14) + slack 0.9
TVerdict == IsEvent("Verdict") /\
            /\ Chk("accuracy-trials", stat.trials >= 40)
            /\ Chk("accuracy-mean", stat.sum <= 250 * stat.probes)
            /\ UNCHANGED <<obj, blob, cst, stat>>

(***************************************************************************)
(* Wide counters: total weight driven past 2^32 by merge doublings.  The   *)
(* weights no longer fit TLC integers, so these sketches are tracked by a  *)
(* reduced model stat.wide[id] = [k, cap, total, minD, maxD] with limb     *)
(* arithmetic: total weight exact (= sum of the logged centroid weights +  *)
(* buffered), extremes exact, capacity, and the C09 clauses.               *)
(***************************************************************************)
WideOK(e, w) ==
  /\ Chk("total-weight", e.total = w.total)
  /\ Chk("weight-sum", WAdd(WSum(e.cw), WOfInt(e.nb)) = e.total)
  /\ Chk("weights-positive", \A j \in 1..Len(e.cw) : e.cw[j][1] + e.cw[j][2] > 0)
  /\ Chk("min", (w.total # <<0, 0>>) => e.min = w.minD)
  /\ Chk("max", (w.total # <<0, 0>>) => e.max = w.maxD)
  /\ Chk("centroid-bound", Len(e.cw) <= w.cap)
TWNew == IsEvent("WNew") /\ LET e == Log[l] IN
            /\ stat' = [stat EXCEPT !.wide = (e.id :> [k |-> e.k, cap |-> e.cap, total |-> <<0, 0>>, minD |-> 0, maxD |-> 0]) @@ @]
            /\ UNCHANGED <<obj, blob, cst>>
\* op "update": the values vs are accepted; "merge": merge(src) - src may be a copy of the sketch itself (doubling)
TWStep == IsEvent("WStep") /\ LET e == Log[l]  w == stat.wide[e.id]
                                  nw == IF e.op = "update"
                                        THEN [w EXCEPT !.total = WAdd(@, WOfInt(Len(e.vs))),
                                                       !.minD = IF w.total = <<0, 0>> THEN MinSeq(e.vs) ELSE Min2(@, MinSeq(e.vs)),
                                                       !.maxD = IF w.total = <<0, 0>> THEN MaxSeq(e.vs) ELSE Max2(@, MaxSeq(e.vs))]
                                        ELSE LET o == stat.wide[e.src] IN
                                             [w EXCEPT !.total = WAdd(@, o.total),
                                                       !.minD = IF w.total = <<0, 0>> THEN o.minD ELSE IF o.total = <<0, 0>> THEN @ ELSE Min2(@, o.minD),
                                                       !.maxD = IF w.total = <<0, 0>> THEN o.maxD ELSE IF o.total = <<0, 0>> THEN @ ELSE Max2(@, o.maxD)] IN
            /\ WideOK(e, nw)
            /\ stat' = [stat EXCEPT !.wide = [@ EXCEPT ![e.id] = nw]]
            /\ UNCHANGED <<obj, blob, cst>>
TWCopy == IsEvent("WCopy") /\ LET e == Log[l] IN
            /\ WideOK(e, stat.wide[e.src])
            /\ stat' = [stat EXCEPT !.wide = (e.dst :> stat.wide[e.src]) @@ @]
            /\ UNCHANGED <<obj, blob, cst>>
TWSer == IsEvent("WSer") /\ LET e == Log[l] IN
            /\ WideOK(e, stat.wide[e.src])
            /\ Chk("C09:bytes=stream", e.img = e.simg)
            /\ Chk("C09:advertised-size", e.size = e.advertised)
            /\ blob' = (e.blob :> [w |-> stat.wide[e.src], cw |-> e.cw, nb |-> e.nb, img |-> e.img, size |-> e.size]) @@ blob
            /\ UNCHANGED <<obj, cst, stat>>
TWDeser == IsEvent("WDeser") /\ LET e == Log[l]  b == blob[e.blob] IN
            /\ Chk("C17:total-weight-wide", e.total = b.w.total)       \* (weight conservation is C17's clause, also through an image)
            /\ Chk("C09:centroid-weights-wide", e.cw = b.cw /\ e.nb = b.nb)
            /\ WideOK(e, b.w)
            /\ Chk("C09:consumed", e.consumed = b.size)
            /\ Chk("C09:reserialize", e.reimg = b.img)
            /\ stat' = [stat EXCEPT !.wide = (e.dst :> b.w) @@ @]
            /\ UNCHANGED <<obj, blob, cst>>

TInit == obj = <<>> /\ l = 1 /\ blob = <<>> /\ cst = [zero |-> 0, one |-> 0] /\ stat = [sum |-> 0, probes |-> 0, trials |-> 0, wide |-> <<>>]
TNext == TBegin \/ TNew \/ TUpdate \/ TUpdateNaN \/ TUpdateInf \/ TCompress \/ TMerge \/ TRankGrid \/ TQuantGrid \/ TCdf
         \/ TEmptyQuery \/ TBadQuery \/ TObs \/ TCopy \/ TSer \/ TDeser \/ TTwin \/ TRefImage \/ TTrial \/ TVerdict
         \/ TWNew \/ TWStep \/ TWCopy \/ TWSer \/ TWDeser \/ TSelfMerge \/ TOrderProbe
TSpec == TInit /\ [][TNext]_tvars
====
