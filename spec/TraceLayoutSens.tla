---- MODULE TraceLayoutSens ----
(***************************************************************************)
(* Development aid (bin/layout_sens.py): evaluates the clauses of          *)
(* TraceLayout on every event WITHOUT stopping at a rejection and prints    *)
(* <<"SENS", line, verdict>>, to measure which corruptions of an image /    *)
(* projection the specification notices.  Not part of bin/check.            *)
(***************************************************************************)
EXTENDS TraceLayout
OK(e) == CASE e.e = "Image" -> ImageOK(e) [] e.e = "ReadStored" -> StoredOK(e) [] e.e = "Replayed" -> ReplayedOK(e)
           [] e.e = "ReadRef" -> RefOK(e) [] e.e = "Hash" -> HashOK(e) [] OTHER -> TRUE
SNext == /\ l <= Len(Log) /\ l' = l + 1
         /\ LET e == Log[l] IN
            /\ want' = (IF e.e = "Begin" THEN <<>> ELSE IF e.e = "Expect" THEN (e.name :> e) @@ want ELSE want)
            /\ PrintT(<<"SENS", l, OK(e)>>)
SSpec == TInit /\ [][SNext]_tvars
====
