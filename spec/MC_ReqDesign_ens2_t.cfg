\* C08(b) ensemble semantics, two sections from the start (1- and 2-section compactions, odd compactions reuse the flipped coin) (thorough tier)
\* SecSizes: section sizes by generation (code k = 12: <<12, 8, 6, 4, 4>>), InitSec: initial number of sections (code: 3)
SPECIFICATION ESpec
CONSTANTS Ids = {1, 2}
 Items = {1, 2}
 SecSizes <- Sec2
 InitSec = 2
 Hras = {TRUE, FALSE}
 MaxN = 18
 MergeCoin = "adopt"
INVARIANT EUnbiased ESchedule
CONSTRAINT ENBound ESmallOthers
CHECK_DEADLOCK FALSE
