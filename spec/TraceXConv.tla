---- MODULE TraceXConv ----
(***************************************************************************)
(* X03 - trace validation of the type-converting constructors of kll /     *)
(* req / classic quantiles sketches against XConv: the converted sketch is *)
(* the image of the source (conversion = identity on the logged keys),     *)
(* answers every logged rank / quantile query as the source does and as    *)
(* its own view implies, and stays the image after the same further input  *)
(* under the same coin flips.                                              *)
(***************************************************************************)
EXTENDS XConv, TraceCommon
VARIABLES seg
tvars == <<l, seg>>

Id(x) == x
\* the ranks the API returned are the ones the view implies (items <= / < probe)
RanksFromView(s, probes) ==
  s.empty \/ \A i \in DOMAIN probes : /\ s.rankIncl[i] = RankNum(s, probes[i], TRUE)
                                      /\ s.rankExcl[i] = RankNum(s, probes[i], FALSE)

TBegin == IsEvent("Begin") /\ seg' = [fam |-> Log[l].fam, conv |-> Log[l].conv, phases |-> 0]

TConv == IsEvent("Conv") /\ LET e == Log[l] IN
  /\ Chk("source-well-formed", WellFormed(e.src) /\ Len(e.src.it) = e.src.r)
  /\ Chk("converted-well-formed", WellFormed(e.dst) /\ Len(e.dst.it) = e.dst.r)
  /\ Chk("same-n", e.dst.n = e.src.n)
  /\ Chk("same-k", e.dst.k = e.src.k)
  /\ Chk("same-mode", e.dst.est = e.src.est /\ e.dst.empty = e.src.empty)
  /\ Chk("same-items-and-weights", e.dst.it = e.src.it /\ e.dst.cw = e.src.cw)
  /\ Chk("same-published-error", e.dst.eps = e.src.eps)
  /\ Chk("min-max-converted", e.src.empty \/ (e.dst.min = e.src.min /\ e.dst.max = e.src.max))
  /\ Chk("image", ImageOf(e.src, e.dst, Id))
  /\ Chk("ranks-equal", e.dst.rankIncl = e.src.rankIncl /\ e.dst.rankExcl = e.src.rankExcl)
  /\ Chk("quantiles-equal", e.dst.quantIncl = e.src.quantIncl /\ e.dst.quantExcl = e.src.quantExcl)
  /\ Chk("ranks-follow-from-view", RanksFromView(e.dst, e.probes) /\ RanksFromView(e.src, e.probes))
  /\ seg' = [seg EXCEPT !.phases = @ + 1]

\* merging the converted sketch with a copy of itself conserves the weight
TMerged == IsEvent("Merged") /\ Chk("converted-sketch-mergeable", Log[l].n = Log[l].n2) /\ UNCHANGED seg

\* every conversion of this driver is order preserving and injective on the keys: it must succeed, and both phases were observed
TEnd == IsEvent("End") /\ Chk("conversion-succeeds", ~Log[l].threw) /\ Chk("both-phases-observed", seg.phases = 2) /\ UNCHANGED seg

TInit == l = 1 /\ seg = <<>>
TNext == TBegin \/ TConv \/ TMerged \/ TEnd
TSpec == TInit /\ [][TNext]_tvars
====
