---- MODULE KllMech ----
(***************************************************************************)
(* The mechanism of kll_sketch as pure operators over level sequences      *)
(* (kll/include/kll_sketch_impl.hpp, kll_helper_impl.hpp), parametric in   *)
(* k; M is the minimum level width (code: kll_constants::DEFAULT_M = 8).   *)
(* Shared by the design model spec/KllDesign.tla (small M, exhaustive      *)
(* refinement / martingale checks) and by the tier-B shadow state of       *)
(* spec/TraceQuantiles.tla (the code's M = 8, real k, logged coins), so    *)
(* that what TLC proves about the design is about the operators the        *)
(* recorded executions are compared with.                                  *)
(* Level h (index h + 1) has weight 2^h; level 0 is in buffer order,       *)
(* newest first; levels >= 1 ascending.                                    *)
(***************************************************************************)
EXTENDS Naturals, Sequences, FiniteSets, SequencesExt, TLC
CONSTANTS M,                  \* minimum level width
          HalveUpParityFlip   \* 0 = the code; 1 = negative model config (halve_up ignores the coin)

Max2(a, b) == IF a > b THEN a ELSE b
Min2(a, b) == IF a < b THEN a ELSE b
SumSeq(s) == FoldLeft(LAMBDA a, b : a + b, 0, s)

(* kll_helper::int_cap_aux_aux / level_capacity / compute_total_capacity (depth <= 19 is 32-bit safe) *)
IntCapAux(k, depth) == LET tmp == ((2 * k) * 2^depth) \div 3^depth IN (tmp + 1) \div 2
Cap(k, nl, h) == Max2(M, IntCapAux(k, nl - h - 1))       \* h is 0-based
TotalCap(k, nl) == SumSeq([h \in 1..nl |-> Cap(k, nl, h - 1)])
\* kll_helper::ub_on_num_levels
UbLevels(n) == IF n = 0 THEN 1 ELSE 1 + (CHOOSE e \in 0..30 : 2^e <= n /\ n < 2^(e + 1))

Sizes(lv) == [h \in 1..Len(lv) |-> Len(lv[h])]
TotalItems(lv) == SumSeq(Sizes(lv))
SortAsc(s) == SortSeq(s, LAMBDA x, y : x < y)
RECURSIVE MergeSorted(_, _)
MergeSorted(a, b) == IF a = <<>> THEN b ELSE IF b = <<>> THEN a
   ELSE IF Head(a) < Head(b) THEN <<Head(a)>> \o MergeSorted(Tail(a), b)
   ELSE <<Head(b)>> \o MergeSorted(a, Tail(b))
\* keep the elements whose 0-based index has parity p (s has even length)
Pick(s, p) == [i \in 1..(Len(s) \div 2) |-> s[2 * i - 1 + p]]
\* randomly_halve_up keeps 0-based parity 1 - coin; randomly_halve_down keeps parity coin
HalveUp(s, c) == Pick(s, IF HalveUpParityFlip = 1 THEN 1 ELSE 1 - c)
HalveDown(s, c) == Pick(s, c)

\* compaction of level h (0-based) of lv, whose level above exists: the core shared by both compress routines
CompactLevel(lv, h, c) ==
  LET raw == lv[h + 1]
      odd == Len(raw) % 2 = 1
      left == IF odd THEN <<Head(raw)>> ELSE <<>>
      adj0 == IF odd THEN Tail(raw) ELSE raw
      adj == IF h = 0 THEN SortAsc(adj0) ELSE adj0
      above == lv[h + 2]
      up == IF above = <<>> THEN HalveUp(adj, c) ELSE MergeSorted(HalveDown(adj, c), above)
  IN [lv EXCEPT ![h + 1] = left, ![h + 2] = up]

(* compress_while_updating: lowest level at or over capacity; a new top level is added first when needed *)
FindLevel(k, lv) == CHOOSE h \in 0..(Len(lv) - 1) : /\ Len(lv[h + 1]) >= Cap(k, Len(lv), h)
                                                    /\ \A g \in 0..(h - 1) : Len(lv[g + 1]) < Cap(k, Len(lv), g)
CompressWhileUpdating(k, lv, c) ==
  LET h == FindLevel(k, lv)
      lv1 == IF h = Len(lv) - 1 THEN Append(lv, <<>>) ELSE lv
  IN CompactLevel(lv1, h, c)
\* internal_update + placement of the item: [lv, used]; the buffer is full iff levels_[0] == 0
Full(k, lv) == TotalItems(lv) = TotalCap(k, Len(lv))
Insert(k, lv, v, c) ==
  LET lv2 == IF Full(k, lv) THEN CompressWhileUpdating(k, lv, c) ELSE lv
  IN [lv |-> [lv2 EXCEPT ![1] = <<v>> \o @], used |-> IF Full(k, lv) THEN 1 ELSE 0]

(* kll_helper::general_compress over the work levels `in`; coins cs consumed from position ci + 1 *)
CoinAt(cs, i) == IF i <= Len(cs) THEN cs[i] ELSE 0
RECURSIVE GC(_, _, _, _, _, _, _, _, _)
GC(k, in, out, level, nl, count, target, cs, ci) ==
  LET in1 == IF level = nl - 1 /\ Len(in) < level + 2 THEN Append(in, <<>>) ELSE in
      raw == in1[level + 1]
      pop == Len(raw)
      asis == count < target \/ pop < Cap(k, nl, level)
      half == (pop - (pop % 2)) \div 2
      cl == CompactLevel(in1, level, CoinAt(cs, ci + 1))
      in2 == IF asis THEN in1 ELSE cl
      out2 == Append(out, IF asis THEN raw ELSE cl[level + 1])
      count2 == IF asis THEN count ELSE count - half
      grew == ~asis /\ level = nl - 1
      nl2 == IF grew THEN nl + 1 ELSE nl
      target2 == IF grew THEN target + Cap(k, nl + 1, 0) ELSE target
      ci2 == IF asis THEN ci ELSE ci + 1
  IN IF level = nl2 - 1 THEN [lv |-> out2, used |-> ci2]
     ELSE GC(k, in2, out2, level + 1, nl2, count2, target2, cs, ci2)
GeneralCompress(k, in, cs, ci) == GC(k, in, <<>>, 0, Len(in), TotalItems(in), TotalCap(k, Len(in)), cs, ci)

(* kll_sketch::merge on the levels: [lv, used] *)
LevelOr(lv, h) == IF h <= Len(lv) THEN lv[h] ELSE <<>>
RECURSIVE Replay(_, _, _, _, _)
Replay(k, lv, xs, cs, ci) ==   \* other's level 0, in buffer order, through internal_update
  IF xs = <<>> THEN [lv |-> lv, used |-> ci]
  ELSE LET r == Insert(k, lv, Head(xs), CoinAt(cs, ci + 1)) IN Replay(k, r.lv, Tail(xs), cs, ci + r.used)
MergeLevels(k, a, b, cs) ==
  LET r == Replay(k, a, b[1], cs, 0)
      prov == Max2(Len(r.lv), Len(b))
      work == [h \in 1..prov |-> IF h = 1 THEN r.lv[1] ELSE MergeSorted(LevelOr(r.lv, h), LevelOr(b, h))]
  IN IF Len(b) >= 2 THEN GeneralCompress(k, work, cs, r.used) ELSE r

====
