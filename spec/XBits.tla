---- MODULE XBits ----
(***************************************************************************)
(* X08 - contract of theta/include/bit_packing.hpp:                        *)
(*   pack_bits(value, bits, ptr, offset) / unpack_bits(value, bits, ptr,   *)
(*   offset): one value of `bits` bits (1..63), most significant bit       *)
(*   first, written at bit `offset` (0..7, counted from the most           *)
(*   significant bit) of *ptr, contiguously; ptr is advanced by the whole  *)
(*   bytes consumed and the new bit offset is returned;                    *)
(*   pack_bits_block8 / unpack_bits_block8(values, ptr, bits): 8 values    *)
(*   packed contiguously into exactly `bits` bytes - the same bytes as 8   *)
(*   single packs from offset 0 ("we assume that higher bits (which we are *)
(*   not packing) are zeros").                                             *)
(* This is the layout the compressed compact theta image (serial version   *)
(* 4) is defined by: spec/Layout.tla builds it with BitsMSB / PackBits; the *)
(* exhaustive model checks that the two definitions coincide.              *)
(*                                                                         *)
(* 63-bit values do not fit TLC's integers: a value is four 16-bit limbs   *)
(* (most significant first); a buffer is a sequence of bytes; everything   *)
(* is stated bit by bit.                                                   *)
(***************************************************************************)
EXTENDS Integers, Sequences, TLC

\* bit k (0 = least significant) of a value given as limbs <<l3, l2, l1, l0>>
LimbBit(v, k) == (v[4 - (k \div 16)] \div (2 ^ (k % 16))) % 2
\* i-th bit (1 = most significant) of the eb-bit field holding v
FieldBit(v, eb, i) == LimbBit(v, eb - i)
\* the value fits eb bits
Fits(v, eb) == \A k \in eb..63 : LimbBit(v, k) = 0
\* bit s (0-based, most significant bit of byte `pos` first) of the stream that starts at byte index pos (1-based) of buf
StreamBit(buf, pos, s) == (buf[pos + (s \div 8)] \div (2 ^ (7 - (s % 8)))) % 2

LastByte(pos, off, eb) == pos + ((off + eb - 1) \div 8)
\* the state of the destination the documented use guarantees: the rest of the first byte (from bit off on) is zero.
\* (Sequential packing from offset 0 establishes it by itself: every byte is first ASSIGNED by the call that reaches it.)
TailZero(before, pos, off) == \A s \in off..7 : StreamBit(before, pos, s) = 0

\* pack_bits(v, eb, ptr = &buf[pos], off): result buffer `after`, returned offset ret, ptr advanced by adv bytes
PackOK(before, after, pos, off, eb, v, ret, adv) ==
  LET total == off + eb  last == LastByte(pos, off, eb) IN
  /\ Len(after) = Len(before)
  /\ ret = total % 8 /\ adv = total \div 8
  \* nothing outside the bytes the field occupies is written, and the bits before the field stay
  /\ \A b \in 1..Len(before) : (b < pos \/ b > last) => after[b] = before[b]
  /\ \A s \in 0..(off - 1) : StreamBit(after, pos, s) = StreamBit(before, pos, s)
  \* with the documented precondition the field holds the value, most significant bit first, and the rest of the
  \* last byte is left zero for the next value to be ORed in
  /\ TailZero(before, pos, off) =>
       /\ \A i \in 1..eb : StreamBit(after, pos, off + i - 1) = FieldBit(v, eb, i)
       /\ \A s \in total..(8 * (last - pos + 1) - 1) : StreamBit(after, pos, s) = 0

\* unpack_bits(value, eb, ptr = &buf[pos], off): the value read
UnpackOK(buf, pos, off, eb, v, ret, adv) ==
  /\ ret = (off + eb) % 8 /\ adv = (off + eb) \div 8
  /\ Fits(v, eb)
  /\ \A i \in 1..eb : FieldBit(v, eb, i) = StreamBit(buf, pos, off + i - 1)

\* pack_bits_block8(vals, &buf[pos], eb): 8 values of eb bits in exactly eb bytes, nothing else written
Block8OK(before, after, pos, eb, vals) ==
  /\ Len(after) = Len(before)
  /\ \A b \in 1..Len(before) : (b < pos \/ b >= pos + eb) => after[b] = before[b]
  /\ \A j \in 1..8 : \A i \in 1..eb : StreamBit(after, pos, (j - 1) * eb + i - 1) = FieldBit(vals[j], eb, i)
Unblock8OK(buf, pos, eb, vals) ==
  \A j \in 1..8 : Fits(vals[j], eb) /\ \A i \in 1..eb : FieldBit(vals[j], eb, i) = StreamBit(buf, pos, (j - 1) * eb + i - 1)
====
