---- MODULE HllUnionDesign ----
(***************************************************************************)
(* Tier B design model of hll_union (HllUnion-internal.hpp, Hll8Array-     *)
(* internal.hpp mergeHll / mergeList, HllArray-internal.hpp isEmpty /      *)
(* check_rebuild_kxq_cur_min / copyAs).  The gadget is an implementation   *)
(* state record                                                            *)
(*   [hll, cs, lg, reg, nac, cmin, rb]                                     *)
(* coupon mode: coupon set cs at lg; HLL mode: HLL_8 registers reg at lg   *)
(* plus the fields the code really keeps: stored numAtCurMin (nac) and     *)
(* curMin (cmin), which are STALE while the rebuild flag rb is set.        *)
(* Input sketches are values of the Hll contract (catalogue Inputs).       *)
(* Two switches select the code that is modelled:                          *)
(*   FixedIsEmpty   TRUE: HllArray::isEmpty() returns false while the      *)
(*                  rebuild flag is set (proposed fix hll_union_empty);    *)
(*                  FALSE: the pinned code (trusts the stale counters)     *)
(*   FixedDownsampleKxq TRUE: copy_or_downsample rebuilds KxQ right after   *)
(*                  the down-sampling merge (fix 96157e7); FALSE: pending    *)
(*                  rebuild next to a live HIP accumulator (HipOK violated)  *)
(*   FixedReset     TRUE: reset() re-creates the gadget at lg_max_k        *)
(*                  (proposed fix hll_union_reset); FALSE: the pinned code *)
(*                  (gadget_.reset() keeps the down-sampled lg_k)          *)
(* MC_HllUnionDesign.cfg (both TRUE) checks ResultOK / EmptyOK / refinement*)
(* of the contract; the _pinned / _pinned_reset configs are NEGATIVE: TLC  *)
(* must report a violation of ResultOK (kept to show that the machinery    *)
(* flags the pinned behaviour, DESIGN 8).                                  *)
(* The operators live in HllUnionMech.tla (shared with the tier-B trace    *)
(* validation); the gadget's own list/set stages are abstracted into       *)
(* PromoteCount(lg) (coupons at which the gadget becomes an HLL array).    *)
(***************************************************************************)
EXTENDS HllUnionMech
CONSTANTS LgMaxK, Inputs, Items     \* (PromoteCount, FixedIsEmpty, FixedReset are constants of HllUnionMech)
VARIABLES g,          \* the gadget
          gh          \* ghost: the contract's union state
dvars == <<g, gh>>

HLL == 2
U == INSTANCE HllUnion WITH un <- (1 :> gh), UIds <- {1}, LgMaxKs <- {LgMaxK}, UCoupons <- Items, UBigs <- {FALSE}, TrackFed <- TRUE

Init == g = EmptyList(LgMaxK) /\ gh = U!UFresh(LgMaxK, FALSE)
\* update(const hll_sketch&) / update(hll_sketch&&); t8 = the argument's target type is HLL_8
UpdateSketch(sv, rvalue, t8) ==
  /\ g' = IF sv.empty THEN g ELSE GUpdate(g, FromInput(sv), rvalue, t8, LgMaxK)
  /\ gh' = IF sv.empty THEN gh
           ELSE IF sv.mode = HLL THEN U!AddHll(gh, sv) ELSE U!AddCoupons(gh, sv.fed)
UpdateItem(c) == g' = CouponUpd(g, c) /\ gh' = U!AddCoupons(gh, {c})
GetEstimate == g' = GCheckRebuild(g) /\ UNCHANGED gh
Reset == g' = GReset(g, LgMaxK) /\ gh' = U!UFresh(LgMaxK, FALSE)
Next == \/ \E sv \in Inputs, rv, t8 \in BOOLEAN : UpdateSketch(sv, rv, t8)
        \/ \E c \in Items : UpdateItem(c)
        \/ GetEstimate
        \/ Reset
Spec == Init /\ [][Next]_dvars

\* get_result(t): copyAs replays when the flag is set or the type differs, so content and emptiness of the returned sketch
\* are those of the registers / coupons; its lg_k is the gadget's
Result == IF g.hll THEN [lgK |-> g.lg, mode |-> HLL, regs |-> g.reg, empty |-> Zeros(g.reg) = 2^g.lg]
          ELSE [lgK |-> g.lg, mode |-> 0, coup |-> g.cs, empty |-> g.cs = {}]
ResultOK == U!ResultOK(gh, Result)
\* hll_union::is_empty()
EmptyOK == IsEmpty(g) = gh.empty
\* while the flag is clear the stored counters are exact (what isEmpty and the bounds rely on)
CountersOK == (g.hll /\ ~g.rb) => LET m == GMinOf({g.reg[s] : s \in DOMAIN g.reg}) IN
                (g.cmin = 0 /\ g.nac = Zeros(g.reg)) \/ (g.cmin > 0 /\ g.cmin <= m)
\* the HIP accumulator, while in use, only ever received increments computed from a current KxQ
HipOK == ~g.hipBad
UInvOK == U!UInv
Refines == [][U!UNext]_dvars
====
