---- MODULE HllUnionDesign ----
(***************************************************************************)
(* Tier B design model of hll_union (HllUnion-internal.hpp, Hll8Array-     *)
(* internal.hpp mergeHll / mergeList, HllArray-internal.hpp isEmpty /      *)
(* check_rebuild_kxq_cur_min / copyAs).  The gadget is an implementation   *)
(* state record                                                            *)
(*   [hll, cs, lg, reg, nac, cmin, rb]                                     *)
(* coupon mode: coupon set cs at lg; HLL mode: HLL_8 registers reg at lg   *)
(* plus the fields the code really keeps: stored numAtCurMin (nac) and     *)
(* curMin (cmin), which are STALE while the rebuild flag rb is set.        *)
(* Input sketches are values of the Hll contract (catalogue Inputs).       *)
(* Two switches select the code that is modelled:                          *)
(*   FixedIsEmpty   TRUE: HllArray::isEmpty() returns false while the      *)
(*                  rebuild flag is set (proposed fix hll_union_empty);    *)
(*                  FALSE: the pinned code (trusts the stale counters)     *)
(*   FixedReset     TRUE: reset() re-creates the gadget at lg_max_k        *)
(*                  (proposed fix hll_union_reset); FALSE: the pinned code *)
(*                  (gadget_.reset() keeps the down-sampled lg_k)          *)
(* MC_HllUnionDesign.cfg (both TRUE) checks ResultOK / EmptyOK / refinement*)
(* of the contract; the _pinned / _pinned_reset configs are NEGATIVE: TLC  *)
(* must report a violation of ResultOK (kept to show that the machinery    *)
(* flags the pinned behaviour, DESIGN 8).                                  *)
(* Thresholds of the gadget's own list/set stages are abstracted into      *)
(* PromoteAt (number of coupons at which the gadget becomes an HLL array). *)
(***************************************************************************)
EXTENDS Naturals, FiniteSets, Sequences, TLC
CONSTANTS LgMaxK, Inputs, Items, PromoteAt, FixedIsEmpty, FixedReset
VARIABLES g,          \* the gadget
          gh          \* ghost: the contract's union state
dvars == <<g, gh>>

HLL == 2
U == INSTANCE HllUnion WITH un <- (1 :> gh), UIds <- {1}, LgMaxKs <- {LgMaxK}, UCoupons <- Items, UBigs <- {FALSE}, TrackFed <- TRUE

Slots(lg) == 0..(2^lg - 1)
Zeros(r) == Cardinality({s \in DOMAIN r : r[s] = 0})
EmptyList(lg) == [hll |-> FALSE, cs |-> {}, lg |-> lg, reg |-> <<>>, nac |-> 0, cmin |-> 0, rb |-> FALSE]
\* what HllSketchImpl::isEmpty() computes
IsEmpty(x) == IF x.hll THEN x.cmin = 0 /\ x.nac = 2^x.lg /\ (FixedIsEmpty => ~x.rb) ELSE x.cs = {}
\* implementation state of an input sketch (its own counters are exact)
FromInput(sv) == IF sv.mode = HLL
                 THEN [hll |-> TRUE, cs |-> {}, lg |-> sv.lgK, reg |-> sv.top, nac |-> Zeros(sv.top), cmin |-> 0, rb |-> FALSE]
                 ELSE [hll |-> FALSE, cs |-> sv.fed, lg |-> sv.lgK, reg |-> <<>>, nac |-> 0, cmin |-> 0, rb |-> FALSE]

\* Hll8Array::internalCouponUpdate on the stored (possibly stale) counters
Upd8(x, c) == LET s == c[1] % (2^x.lg) IN
              IF c[2] > x.reg[s] THEN [x EXCEPT !.reg[s] = c[2], !.nac = IF x.reg[s] = 0 THEN @ - 1 ELSE @] ELSE x
RECURSIVE FoldUpd8(_, _)
FoldUpd8(x, S) == IF S = {} THEN x ELSE LET c == CHOOSE c \in S : TRUE IN FoldUpd8(Upd8(x, c), S \ {c})
\* promotion of a coupon-mode implementation to an HLL_8 array (replay, counters exact)
NewArr(lg) == [hll |-> TRUE, cs |-> {}, lg |-> lg, reg |-> [s \in Slots(lg) |-> 0], nac |-> 2^lg, cmin |-> 0, rb |-> FALSE]
\* HllSketchImpl::couponUpdate
CouponUpd(x, c) == IF x.hll THEN Upd8(x, c)
                   ELSE IF c \in x.cs THEN x
                   ELSE LET cs2 == x.cs \cup {c} IN
                        IF Cardinality(cs2) >= PromoteAt THEN FoldUpd8(NewArr(x.lg), cs2) ELSE [x EXCEPT !.cs = cs2]
RECURSIVE FoldCoupon(_, _)
FoldCoupon(x, S) == IF S = {} THEN x ELSE LET c == CHOOSE c \in S : TRUE IN FoldCoupon(CouponUpd(x, c), S \ {c})
\* Hll8Array::mergeHll(src): slot & mask, max; sets the rebuild flag; counters untouched
MergeHll(dst, src) ==
  [dst EXCEPT !.reg = [s \in Slots(dst.lg) |->
                         LET m == U!MaxOf({src.reg[s + j * 2^dst.lg] : j \in 0..(2^(src.lg - dst.lg) - 1)}) IN
                         IF m > dst.reg[s] THEN m ELSE dst.reg[s]],
              !.rb = TRUE]
\* HllArray::copyAs(HLL_8) of an HLL_8 array: plain copy unless the rebuild flag is set (then replay: exact counters)
CopyAs8(src) == IF src.rb THEN [src EXCEPT !.nac = Zeros(src.reg), !.cmin = 0, !.rb = FALSE] ELSE src
\* hll_union::copy_or_downsample
CopyOrDownsample(src, tgt) == IF src.lg <= tgt THEN CopyAs8(src) ELSE MergeHll(NewArr(tgt), src)
\* hll_union::union_impl
UnionImpl(dst, src) ==
  IF ~src.hll
  THEN IF IsEmpty(dst) /\ src.lg = dst.lg THEN src                               \* copyAs(HLL_8) of the coupon list / set
       ELSE FoldCoupon(dst, src.cs)
  ELSE IF ~IsEmpty(dst)
       THEN IF ~dst.hll THEN FoldUpd8(CopyOrDownsample(src, LgMaxK), dst.cs)    \* mergeList of the old gadget
            ELSE MergeHll(IF src.lg < dst.lg THEN CopyOrDownsample(dst, src.lg) ELSE dst, src)
       ELSE CopyOrDownsample(src, LgMaxK)

Init == g = EmptyList(LgMaxK) /\ gh = U!UFresh(LgMaxK, FALSE)
\* update(const hll_sketch&) / update(hll_sketch&&); t8 = the argument's target type is HLL_8
UpdateSketch(sv, rvalue, t8) ==
  /\ IF sv.empty THEN UNCHANGED g
     ELSE LET src == FromInput(sv) IN
          IF rvalue /\ IsEmpty(g) /\ t8 /\ sv.lgK <= LgMaxK /\ (sv.mode = HLL \/ sv.lgK = LgMaxK)
          THEN g' = UnionImpl(src, g)            \* the argument is adopted as gadget, then the swapped-out object is merged
          ELSE g' = UnionImpl(g, src)
  /\ gh' = IF sv.empty THEN gh
           ELSE IF sv.mode = HLL THEN U!AddHll(gh, sv) ELSE U!AddCoupons(gh, sv.fed)
UpdateItem(c) == g' = CouponUpd(g, c) /\ gh' = U!AddCoupons(gh, {c})
\* get_estimate / get_composite_estimate / bounds: check_rebuild_kxq_cur_min as a side effect
GetEstimate ==
  /\ g' = IF g.hll /\ g.rb
          THEN LET m == U!MinOf({g.reg[s] : s \in DOMAIN g.reg}) IN
               [g EXCEPT !.cmin = m, !.nac = Cardinality({s \in DOMAIN g.reg : g.reg[s] = m}), !.rb = FALSE]
          ELSE g
  /\ UNCHANGED gh
Reset == g' = EmptyList(IF FixedReset THEN LgMaxK ELSE g.lg) /\ gh' = U!UFresh(LgMaxK, FALSE)
Next == \/ \E sv \in Inputs, rv, t8 \in BOOLEAN : UpdateSketch(sv, rv, t8)
        \/ \E c \in Items : UpdateItem(c)
        \/ GetEstimate
        \/ Reset
Spec == Init /\ [][Next]_dvars

\* get_result(t): copyAs replays when the flag is set or the type differs, so content and emptiness of the returned sketch
\* are those of the registers / coupons; its lg_k is the gadget's
Result == IF g.hll THEN [lgK |-> g.lg, mode |-> HLL, regs |-> g.reg, empty |-> Zeros(g.reg) = 2^g.lg]
          ELSE [lgK |-> g.lg, mode |-> 0, coup |-> g.cs, empty |-> g.cs = {}]
ResultOK == U!ResultOK(gh, Result)
\* hll_union::is_empty()
EmptyOK == IsEmpty(g) = gh.empty
\* while the flag is clear the stored counters are exact (what isEmpty and the bounds rely on)
CountersOK == (g.hll /\ ~g.rb) => LET m == U!MinOf({g.reg[s] : s \in DOMAIN g.reg}) IN
                (g.cmin = 0 /\ g.nac = Zeros(g.reg)) \/ (g.cmin > 0 /\ g.cmin <= m)
UInvOK == U!UInv
Refines == [][U!UNext]_dvars
====
