---- MODULE XKs ----
(***************************************************************************)
(* X01 - contract of the Kolmogorov-Smirnov helper                         *)
(* (common/include/kolmogorov_smirnov.hpp), written from the header and    *)
(* the reference it cites (Wikipedia, two-sample Kolmogorov-Smirnov test). *)
(*                                                                         *)
(*  delta(s1, s2)  "the raw delta between two quantile sketches for the    *)
(*                  Kolmogorov-Smirnov test" = D = sup_x |F1(x) - F2(x)|,  *)
(*                  F_i the distribution function the sketch itself        *)
(*                  represents: F_i(x) = (total weight of the retained     *)
(*                  items <= x) / n_i.  Both are right-continuous step     *)
(*                  functions that jump only at retained items, so the sup *)
(*                  is the maximum over the union of the retained items.   *)
(*  threshold(s1, s2, p) = c(p) * sqrt((m1 + m2) / (m1 * m2)) + eps1 + eps2 *)
(*                  with c(p) = sqrt(-ln(p / 2) / 2) (cited reference),    *)
(*                  eps_i the sketches' normalized rank errors ("adjusts   *)
(*                  the computed threshold by the error epsilons of the    *)
(*                  two given sketches").  The effective sample sizes m_i  *)
(*                  are NOT documented: left free within r_i <= m_i <= n_i *)
(*                  (retained count .. stream length).                     *)
(*  test(s1, s2, p) = delta(s1, s2) > threshold(s1, s2, p); "if the given  *)
(*                  sketches have insufficient data ... this will return   *)
(*                  false".                                                *)
(*                                                                         *)
(* Everything is integer arithmetic: a view is a pair of sequences         *)
(* (items ascending, cumulative weights); the statistic is the numerator   *)
(* of D over the common denominator n1 * n2.  Items are abstract ordered   *)
(* values (only <, <=, = are used on them).                                *)
(*                                                                         *)
(* The module also carries the two MECHANISMS (tier B), used by the        *)
(* exhaustive model MC_XKs*.cfg:                                           *)
(*   Walk    - the merge walk of the shipped code (one entry per step,     *)
(*             both iterators advance on equal items)                      *)
(*   WalkG   - the same walk consuming, on equal items, every equivalent   *)
(*             entry of both views (the proposed repair,                   *)
(*             notes/fixes/x_ks_ties.diff)                                 *)
(***************************************************************************)
EXTENDS Integers, Sequences, FiniteSets, TLC
LOCAL INSTANCE FiniteSetsExt     \* FoldSet (iterative Java override)

Abs(x) == IF x < 0 THEN -x ELSE x
MaxOf(S) == FoldSet(LAMBDA a, b : IF a > b THEN a ELSE b, 0, S)      \* maximum of a set of naturals (0 if empty)

\* ---- views: [it |-> ascending items, cw |-> inclusive cumulative weights]; n = last cumulative weight
ViewN(v) == IF Len(v.cw) = 0 THEN 0 ELSE v.cw[Len(v.cw)]
WellFormed(v) == /\ Len(v.it) = Len(v.cw)
                 /\ \A i \in 1..(Len(v.it) - 1) : v.it[i] <= v.it[i + 1] /\ v.cw[i] < v.cw[i + 1]
                 /\ (Len(v.cw) > 0 => v.cw[1] > 0)

\* number of entries of the ascending sequence s that are <= x (binary search: log depth)
RECURSIVE CountLEB(_, _, _, _)
CountLEB(s, x, lo, hi) == \* invariant: s[1..lo] <= x, s[hi+1..] > x
  IF lo >= hi THEN lo
  ELSE LET m == (lo + hi + 1) \div 2 IN IF s[m] <= x THEN CountLEB(s, x, m, hi) ELSE CountLEB(s, x, lo, m - 1)
CountLE(s, x) == CountLEB(s, x, 0, Len(s))
\* weight of the retained items <= x  (= F(x) * n)
CumAt(v, x) == LET j == CountLE(v.it, x) IN IF j = 0 THEN 0 ELSE v.cw[j]

\* the contract: numerator of D = max_x |F1(x) - F2(x)| over the denominator n1 * n2
\* (x ranges over the retained items of both sketches; below the smallest item both F are 0)
DiffAt(v1, v2, x) == Abs(CumAt(v1, x) * ViewN(v2) - CumAt(v2, x) * ViewN(v1))
KsNum(v1, v2) ==
  LET n1 == ViewN(v1)  n2 == ViewN(v2)
      \* it suffices to evaluate at the last entry of every group of equal items of either view
      P1 == {i \in 1..Len(v1.it) : i = Len(v1.it) \/ v1.it[i] < v1.it[i + 1]}
      P2 == {j \in 1..Len(v2.it) : j = Len(v2.it) \/ v2.it[j] < v2.it[j + 1]}
      D1 == {Abs(v1.cw[i] * n2 - CumAt(v2, v1.it[i]) * n1) : i \in P1}
      D2 == {Abs(CumAt(v1, v2.it[j]) * n2 - v2.cw[j] * n1) : j \in P2}
  IN MaxOf(D1 \cup D2 \cup {0})
\* the same by the plain definition (used by the exhaustive model to validate the evaluation above)
KsNumDef(v1, v2) == MaxOf({DiffAt(v1, v2, x) : x \in {v1.it[i] : i \in DOMAIN v1.it} \cup {v2.it[j] : j \in DOMAIN v2.it}} \cup {0})
SharesItem(v1, v2) == \E i \in DOMAIN v1.it, j \in DOMAIN v2.it : v1.it[i] = v2.it[j]

\* ---- tier B: the shipped merge walk.  State (i, j) = entries consumed; exclusive cumulative weights.
ExCw(v, i) == IF i = 0 THEN 0 ELSE v.cw[i]          \* weight of the first i entries
RECURSIVE WalkFrom(_, _, _, _, _)
WalkFrom(v1, v2, i, j, best) ==
  LET n1 == ViewN(v1)  n2 == ViewN(v2)
      here == Abs(ExCw(v1, i) * n2 - ExCw(v2, j) * n1)
      b == IF here > best THEN here ELSE best
  IN IF i < Len(v1.it) /\ j < Len(v2.it)
     THEN IF v1.it[i + 1] < v2.it[j + 1] THEN WalkFrom(v1, v2, i + 1, j, b)
          ELSE IF v2.it[j + 1] < v1.it[i + 1] THEN WalkFrom(v1, v2, i, j + 1, b)
          ELSE WalkFrom(v1, v2, i + 1, j + 1, b)
     ELSE \* one view exhausted: its normalized weight counts as 1
          LET a1 == IF i = Len(v1.it) THEN n1 ELSE ExCw(v1, i)
              a2 == IF j = Len(v2.it) THEN n2 ELSE ExCw(v2, j)
              fin == Abs(a1 * n2 - a2 * n1)
          IN IF fin > b THEN fin ELSE b
Walk(v1, v2) == WalkFrom(v1, v2, 0, 0, 0)

\* the repaired walk (notes/fixes/x_ks_ties.diff): as above, but on equal items every entry equivalent to the item is
\* consumed from BOTH views before the functions are compared again
RECURSIVE WalkGFrom(_, _, _, _, _)
WalkGFrom(v1, v2, i, j, best) ==
  LET n1 == ViewN(v1)  n2 == ViewN(v2)
      here == Abs(ExCw(v1, i) * n2 - ExCw(v2, j) * n1)
      b == IF here > best THEN here ELSE best
  IN IF i < Len(v1.it) /\ j < Len(v2.it)
     THEN IF v1.it[i + 1] < v2.it[j + 1] THEN WalkGFrom(v1, v2, i + 1, j, b)
          ELSE IF v2.it[j + 1] < v1.it[i + 1] THEN WalkGFrom(v1, v2, i, j + 1, b)
          ELSE WalkGFrom(v1, v2, CountLE(v1.it, v1.it[i + 1]), CountLE(v2.it, v1.it[i + 1]), b)
     ELSE LET a1 == IF i = Len(v1.it) THEN n1 ELSE ExCw(v1, i)
              a2 == IF j = Len(v2.it) THEN n2 ELSE ExCw(v2, j)
              fin == Abs(a1 * n2 - a2 * n1)
          IN IF fin > b THEN fin ELSE b
WalkG(v1, v2) == WalkGFrom(v1, v2, 0, 0, 0)
====
