---- MODULE MC_Hll ----
\* bounded instance of the multi-object HLL contract: copies/conversions that diverge, resets, lock-step updates;
\* checks that the incremental ghost `top` is the declarative per-slot maximum of the coupon set (Inv) and that
\* content depends on the input set only (SameContent)
EXTENDS Hll
MCCoupons == {<<0,1>>, <<2,3>>, <<1,2>>, <<5,1>>}
Bound == \A i \in Live : Cardinality(obj[i].fed) <= 2
\* sparse-ghost config: both ghost representations side by side, one type, not full-size
BoundSparse == Bound /\ \A i \in Live : obj[i].type = 8 /\ ~obj[i].full
====
