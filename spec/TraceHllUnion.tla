---- MODULE TraceHllUnion ----
(***************************************************************************)
(* Trace validation of recorded executions of hll_union (harness/          *)
(* hllunion_rec.cpp) against the HllUnion contract (C04).  Input sketches  *)
(* are objects of the Hll contract, built by New / Feed events from        *)
(* REFERENCE coupons; UpdateSketch takes the contract VALUE of the input,  *)
(* never anything the library reported about it.  Clauses about the input  *)
(* sketches themselves carry the prefix C03: (SkPrefix), those about       *)
(* bounds C06:, serialization C09:; unprefixed clauses are C04's.          *)
(***************************************************************************)
EXTENDS TraceHll
VARIABLES un,
          ug,     \* tier B: shadow gadget per union (HllUnionMech), only maintained when CheckDesign
          uoo     \* per union: a non-empty OUT-OF-ORDER sketch (a union result, possibly restored) was among its inputs since reset
U == INSTANCE HllUnion WITH UIds <- {}, LgMaxKs <- {}, UCoupons <- {}, Inputs <- {}, UBigs <- {}
tuvars == <<obj, l, hist, blob, sh, un, ug, uoo>>
SkUnchanged == UNCHANGED <<obj, hist, blob, sh>>

(* ---------------- tier B: the union's gadget as the code keeps it ---------------- *)
\* a coupon-mode sketch of 2^lg slots becomes an HLL array at this many distinct coupons (list of 8; for lg >= 8 a set that is
\* promoted when 4 * count > 3 * 2^(lg - 3))
RealPromoteCount(lg) == IF lg < 8 THEN 8 ELSE 3 * 2^(lg - 5) + 1
G == INSTANCE HllUnionMech WITH PromoteCount <- RealPromoteCount, FixedIsEmpty <- TRUE, FixedReset <- TRUE, FixedDownsampleKxq <- TRUE
NoG == [lg |-> 0 - 1]
GSup(x) == x.lg >= 0
UgSet(f) == IF CheckDesign THEN f ELSE ug
\* lg size of a coupon hash set holding n coupons (starts at 32 ints, doubles when 4 * n > 3 * size)
RECURSIVE SetLgOf(_, _)
SetLgOf(n, lg) == IF 4 * n <= 3 * 2^lg THEN lg ELSE SetLgOf(n, lg + 1)
GScalars(e, x) == (CheckDesign /\ GSup(x)) =>
                    /\ Chk("B:gadget-is_empty", e.empty = G!IsEmpty(x))
                    /\ Chk("B:gadget-lg_k", e.lgk = x.lg)
\* what get_result(t) exposes of the gadget: p = physical state of the returned sketch's own image
GResultOK(p, t, x) == (CheckDesign /\ GSup(x) /\ p.m >= 0) =>
  LET n == Cardinality(x.cs) IN
  /\ Chk("B:gadget-mode", p.m = IF x.hll THEN 2 ELSE IF n < 8 THEN 0 ELSE 1)
  /\ (~x.hll /\ p.m < 2) => Chk("B:gadget-coupon-count", p.cnt = n)
  /\ (~x.hll /\ p.m = 1) => Chk("B:gadget-set-lg-size", p.lg = SetLgOf(n, 5))
  /\ (x.hll /\ p.m = 2 /\ Has(p, "ooo")) => Chk("B:gadget-out-of-order-flag", p.ooo = x.ooo)
  /\ (x.hll /\ p.m = 2) =>
       \* HLL_8 without pending rebuild is a plain copy of the gadget (stored counters); otherwise the registers are replayed:
       \* HLL_6 / HLL_8 count the zero slots, HLL_4 keeps the true minimum and its multiplicity
       Chk("B:gadget-counters",
           IF t = 8 /\ ~x.rb THEN <<p.cm, p.nac>> = <<x.cmin, x.nac>>
           ELSE IF t # 4 THEN <<p.cm, p.nac>> = <<0, G!Zeros(x.reg)>>
           ELSE LET V == {x.reg[s] : s \in DOMAIN x.reg}
                    mn == CHOOSE v \in 0..63 : v \in V /\ \A w \in 0..(v - 1) : w \notin V
                IN <<p.cm, p.nac>> = <<mn, Cardinality({s \in DOMAIN x.reg : x.reg[s] = mn})>>)

\* side-effect-free getters of the union, logged on every union event
UScalars(e, o) == /\ Chk("union-is_empty", e.empty = o.empty)
                  /\ Chk("union-lg_k", e.lgk = U!LgStar(o))
UBoundsOK(r, o, hllmode) ==
  /\ Chk("C06:bound-width", (hllmode /\ r.estF > 0) =>
          WidthOK(r, U!LgStar(o), IF o.big THEN Cardinality({p[1] % (2^U!LgStar(o)) : p \in o.fed \cup o.sp}) ELSE NonZero(o)))
  /\ Chk("C06:bounds", /\ r.lb[3] <= r.lb[2] /\ r.lb[2] <= r.lb[1] /\ r.lb[1] <= r.est
                       /\ r.est <= r.ub[1] /\ r.ub[1] <= r.ub[2] /\ r.ub[2] <= r.ub[3])
  /\ LET retained == IF ~hllmode THEN Cardinality(o.fed)
                     ELSE IF o.big THEN Cardinality({p[1] % (2^U!LgStar(o)) : p \in o.fed \cup o.sp}) ELSE NonZero(o) IN
     Chk("C06:lb>=retained", \A k \in 1..3 : r.lbF[k] >= retained)
  /\ Chk("C06:coupon-estimate", ~hllmode => LET n == Cardinality(o.fed) IN r.estF >= n /\ r.estF <= n + n \div 1000 + 1)
  /\ Chk("C06:empty-estimate", o.empty => r.estF = 0)

TUBegin == TBegin /\ un' = <<>> /\ ug' = <<>> /\ uoo' = <<>>
TUNew == IsEvent("UNew") /\ LET e == Log[l] IN
          /\ U!UNew(e.u, e.lgmaxk, e.lgmaxk > DenseMaxLgK) /\ UScalars(e, un'[e.u]) /\ SkUnchanged
          /\ ug' = UgSet((e.u :> IF e.lgmaxk <= ShadowMaxLgK THEN G!EmptyList(e.lgmaxk) ELSE NoG) @@ ug) /\ GScalars(e, ug'[e.u])
          /\ uoo' = (e.u :> FALSE) @@ uoo
TUUpdate == IsEvent("UUpdate") /\ LET e == Log[l]  sv == obj[e.src]  o == un[e.u]
                                      \* an empty HLL-mode input: did the implementation lower its precision? (left open by the statement)
                                      counted == IF sv.empty THEN sv.mode = HLL /\ sv.lgK < U!LgStar(o) /\ e.lgk = sv.lgK
                                                 ELSE sv.mode = HLL IN
          /\ U!UpdateSketch(e.u, sv, counted) /\ UScalars(e, un'[e.u]) /\ SkUnchanged
          /\ ug' = UgSet([ug EXCEPT ![e.u] = IF sv.empty \/ ~GSup(@) THEN @
                                             ELSE IF sv.big \/ sv.lgK > ShadowMaxLgK \/ ~Sup(sh[e.src]) THEN NoG   \* (results fed back: physical counters unknown)
                                             ELSE G!GUpdate(@, G!FromInput(sv), e.rvalue, sv.type = 8, un[e.u].lgMaxK)])
          /\ GScalars(e, ug'[e.u])
          /\ uoo' = [uoo EXCEPT ![e.u] = @ \/ (Has(e, "srcOoo") /\ e.srcOoo /\ ~sv.empty)]
TUItem == IsEvent("UItem") /\ LET e == Log[l] IN
          /\ U!UpdateItem(e.u, <<e.c[1], e.c[2]>>) /\ UScalars(e, un'[e.u]) /\ SkUnchanged
          \* While the union answers with its in-order (HIP) estimate, that estimate must stay consistent with the registers: an item
          \* that raises a register adds k / KxQ of the registers BEFORE the update (KxQ = sum over slots of 2^-register), an item
          \* that changes no register adds nothing.  e.hinc (HLL mode, lg_k <= 12) is read from get_result(HLL_8) images taken before
          \* and after the call (no side effects): ooo flag, HIP accumulator (D tokens), and ppb = 10^9 * |observed increment -
          \* k / KxQ(registers before)| / that increment, computed by the harness from those images (unit conversion).
          /\ (Has(e, "hinc") /\ ~un[e.u].big) =>
               LET h == e.hinc  o == un[e.u]  raised == o.top[e.c[1] % (2^U!LgStar(o))] < e.c[2] IN
               (~h.ooo /\ ~h.oooAfter) =>
                 /\ Chk("union-hip-unchanged-without-register-change", ~raised => h.hipAfter = h.hipBefore)
                 /\ Chk("union-hip-increment-is-k/KxQ", raised => (h.hipBefore < h.hipAfter /\ h.ppb <= 1000))
          /\ ug' = UgSet([ug EXCEPT ![e.u] = IF GSup(@) THEN G!CouponUpd(@, <<e.c[1], e.c[2]>>) ELSE @]) /\ GScalars(e, ug'[e.u]) /\ UNCHANGED uoo
TUItemIgnored == IsEvent("UItemIgnored") /\ LET e == Log[l] IN
          /\ U!UpdateIgnoredItem(e.u) /\ UScalars(e, un[e.u]) /\ SkUnchanged /\ UNCHANGED <<ug, uoo>>
TUReset == IsEvent("UReset") /\ LET e == Log[l] IN
          /\ U!UReset(e.u) /\ UScalars(e, un'[e.u]) /\ SkUnchanged
          \* reset() = back to the original state: the results of the reset union have the images of a new union's results
          /\ (Has(e, "imgs") => Chk("reset-restores-the-fresh-state", e.imgs = e.fresh))
          /\ ug' = UgSet([ug EXCEPT ![e.u] = IF GSup(@) THEN G!GReset(@, un[e.u].lgMaxK) ELSE @]) /\ GScalars(e, ug'[e.u])
          /\ uoo' = [uoo EXCEPT ![e.u] = FALSE]
TUObs == IsEvent("UObs") /\ LET e == Log[l] IN
          /\ U!Observe(e.u) /\ UScalars(e, un[e.u]) /\ SkUnchanged /\ UNCHANGED <<ug, uoo>> /\ GScalars(e, ug[e.u])
TUEst == IsEvent("UEst") /\ LET e == Log[l]  o == un[e.u] IN
          /\ U!Observe(e.u) /\ UScalars(e, o)
          /\ Chk("out-of-order-input-reports-composite-estimate", uoo[e.u] => e.est = e.cest)
          /\ Chk("union-bounds-bracket-estimate", \A k \in 1..3 : e.lb[k] <= e.est /\ e.est <= e.ub[k])
          /\ Chk("C06:bounds", /\ e.lb[3] <= e.lb[2] /\ e.lb[2] <= e.lb[1] /\ e.lb[1] <= e.est
                               /\ e.est <= e.ub[1] /\ e.ub[1] <= e.ub[2] /\ e.ub[2] <= e.ub[3])
          /\ Chk("C06:empty-estimate", o.empty => e.estF = 0)
          /\ SkUnchanged /\ UNCHANGED uoo
          \* the estimate getters run check_rebuild_kxq_cur_min on the gadget
          /\ ug' = UgSet([ug EXCEPT ![e.u] = IF GSup(@) THEN G!GCheckRebuild(@) ELSE @]) /\ GScalars(e, ug'[e.u])
\* a refused bound query on the union (NumStdDev outside 1..3); the gadget's deferred rebuild runs before the argument check
TUBadArg == IsEvent("BadArg") /\ LET e == Log[l] IN
          /\ Has(e, "u")
          /\ Chk("C06:invalid-num-std-dev-refused", e.threw)
          /\ U!Observe(e.u) /\ SkUnchanged
          /\ ug' = UgSet([ug EXCEPT ![e.u] = IF GSup(@) THEN G!GCheckRebuild(@) ELSE @]) /\ UNCHANGED uoo
\* get_result(type): ResultDef
ResultContent(e) == LET o == un[e.u]  r == e.r  lg == U!LgStar(o) IN
          /\ U!Observe(e.u) /\ UScalars(e, o)
          /\ Chk("result-type", r.type = e.type /\ r.typeApi = e.type)
          /\ Chk("result-lg_k", r.lgk = lg /\ r.lgkApi = lg)
          /\ Chk("result-is_empty", r.empty = o.empty)
          /\ IF r.cmode = HLL
             THEN IF Has(r, "nz")     \* sparse observation (result lg_k > 16)
                  THEN Chk("result-registers", /\ o.big /\ Len(r.nz) = Cardinality(ToSet(r.nz))
                                               /\ U!PairsMatch(ToSet(r.nz), o.fed \cup o.sp, lg))
                  ELSE Chk("result-registers", /\ Len(r.regs) = 2^lg
                                               /\ IF o.big THEN U!PairsMatch({<<x - 1, r.regs[x]>> : x \in {y \in DOMAIN r.regs : r.regs[y] > 0}}, o.fed \cup o.sp, lg)
                                                  ELSE \A s \in DOMAIN o.top : r.regs[s + 1] = o.top[s])
             ELSE /\ Chk("result-coupon-mode-after-hll-input", o.hllLg = {})
                  /\ Chk("result-coupons", ToSet(r.coup) = o.fed /\ Len(r.coup) = Cardinality(o.fed))
          /\ Chk("ResultDef", U!ResultOK(o, [lgK |-> r.lgk, mode |-> r.cmode, empty |-> r.empty,
                                             regs |-> IF r.cmode = HLL /\ ~o.big THEN [s \in 0..(Len(r.regs) - 1) |-> r.regs[s + 1]] ELSE <<>>,
                                             nz |-> IF r.cmode # HLL \/ ~o.big THEN {}
                                                    ELSE IF Has(r, "nz") THEN ToSet(r.nz)
                                                    ELSE {<<x - 1, r.regs[x]>> : x \in {y \in DOMAIN r.regs : r.regs[y] > 0}},
                                             coup |-> IF r.cmode = HLL THEN {} ELSE ToSet(r.coup)]))
          \* the bounds clause of C03 applied to union results; a union that received an out-of-order input answers with the
          \* composite estimate (its HIP accumulator is meaningless).  (Before the C06-named clauses, which C04 does not report.)
          /\ Chk("out-of-order-input-reports-composite-estimate", uoo[e.u] => r.est = r.cest)
          /\ Chk("result-bounds-bracket-estimate", \A k \in 1..3 : r.lb[k] <= r.est /\ r.est <= r.ub[k])
          /\ UBoundsOK(r, o, r.cmode = HLL)
ResultChecks(e) == /\ ResultContent(e)
                   /\ (Has(e.r, "ph") => GResultOK(e.r.ph, e.type, ug[e.u])) /\ GScalars(e, ug[e.u])
TUResult == IsEvent("UResult") /\ ResultChecks(Log[l]) /\ SkUnchanged /\ UNCHANGED <<ug, uoo>>
\* get_result in all three types, first from the union as it is, then from a copy of it on which get_composite_estimate() was
\* called before: a result must not depend on its type or on whether an unrelated query was made earlier
TUResults3 == IsEvent("UResults3") /\ LET e == Log[l] IN
          /\ \A n, k \in DOMAIN e.rs : n < k => LET d == e.dq[n][k]  a == e.rs[n]  b == e.rs[k] IN
               /\ Chk("result-composite-estimate-agrees-across-types-and-queries", a.cest = b.cest \/ d[1] <= 1)
               /\ Chk("result-estimate-agrees-across-types-and-queries", a.est = b.est \/ d[2] <= 1)
               /\ Chk("result-bounds-agree-across-types-and-queries", (a.lb[3] = b.lb[3] \/ d[3] <= 1) /\ (a.ub[3] = b.ub[3] \/ d[4] <= 1))
          /\ \A n \in DOMAIN e.rs : LET x == [u |-> e.u, type |-> e.rs[n].type, r |-> e.rs[n], lgk |-> e.lgk, empty |-> e.empty] IN
               IF n <= 3 THEN ResultChecks(x) ELSE ResultContent(x)
          /\ SkUnchanged /\ UNCHANGED <<ug, uoo>>
\* a result kept as a sketch of its own (fed to further unions): its contract value is the union's ghost at that moment
TUResultAs == IsEvent("UResultAs") /\ LET e == Log[l]  o == un[e.u]  r == e.r IN
          /\ ResultChecks(e)
          /\ obj' = (e.dst :> [lgK |-> U!LgStar(o), type |-> e.type, full |-> r.full, mode |-> r.mode,
                               fed |-> IF o.big THEN o.fed \cup o.sp ELSE IF r.mode = HLL THEN {} ELSE o.fed,
                               top |-> o.top, empty |-> o.empty, big |-> o.big]) @@ obj
          /\ hist' = (e.dst :> [done |-> <<<<l>>>>, cur |-> <<>>]) @@ hist      \* an order of its own
          /\ sh' = ShSet((e.dst :> NoSh) @@ sh)
          /\ UNCHANGED <<blob, ug, uoo>>
\* the unions of a segment side by side: equal contract states => equal estimates, whatever the order of presentation,
\* the observers called in between and the lvalue / rvalue choice
TUCompare == IsEvent("UCompare") /\ LET e == Log[l] IN
          /\ \A n, k \in DOMAIN e.objs : n < k =>
               LET a == e.objs[n]  b == e.objs[k]  oa == un[a.u]  ob == un[b.u] IN
               (U!LgStar(oa) = U!LgStar(ob) /\ oa.top = ob.top /\ oa.fed = ob.fed /\ oa.sp = ob.sp /\ oa.big = ob.big /\ oa.empty = ob.empty
                  /\ (oa.hllLg = {}) = (ob.hllLg = {}) /\ Class(a.mode) = Class(b.mode))
                 \* e.dq[n][k] = <<round(10^12 |a - b| / max(a, b)) of the unions' composite estimates, the same of the results'>>: equal
                 \* up to 10^-12 (DESIGN C03: a register difference moves the estimate by far more; the deferred rebuild of kxq
                 \* sums in another order than the incremental update, which can differ in the last bit for register values >= 32)
                 => /\ Chk("order-independent-estimate", a.cest = b.cest \/ e.dq[n][k][1] <= 1)
                    /\ Chk("order-independent-result-estimate", a.rcest = b.rcest \/ e.dq[n][k][2] <= 1)
          \* get_composite_estimate of every union ran check_rebuild
          /\ ug' = UgSet([u \in DOMAIN ug |-> IF GSup(ug[u]) /\ \E n \in DOMAIN e.objs : e.objs[n].u = u THEN G!GCheckRebuild(ug[u]) ELSE ug[u]])
          /\ UNCHANGED <<obj, hist, blob, sh, un, uoo>>

TUInit == TInit /\ un = <<>> /\ ug = <<>> /\ uoo = <<>>
TUNext == TUBegin \/ (SkNext /\ UNCHANGED <<un, ug, uoo>>)
          \/ TUNew \/ TUUpdate \/ TUItem \/ TUItemIgnored \/ TUReset \/ TUObs \/ TUEst \/ TUBadArg \/ TUResult \/ TUResults3 \/ TUResultAs \/ TUCompare
TUSpec == TUInit /\ [][TUNext]_tuvars
====
