---- MODULE TraceHllUnion ----
(***************************************************************************)
(* Trace validation of recorded executions of hll_union (harness/          *)
(* hllunion_rec.cpp) against the HllUnion contract (C04).  Input sketches  *)
(* are objects of the Hll contract, built by New / Feed events from        *)
(* REFERENCE coupons; UpdateSketch takes the contract VALUE of the input,  *)
(* never anything the library reported about it.  Clauses about the input  *)
(* sketches themselves carry the prefix C03: (SkPrefix), those about       *)
(* bounds C06:, serialization C09:; unprefixed clauses are C04's.          *)
(***************************************************************************)
EXTENDS TraceHll
VARIABLE un
U == INSTANCE HllUnion WITH UIds <- {}, LgMaxKs <- {}, UCoupons <- {}, Inputs <- {}, UBigs <- {}
tuvars == <<obj, l, hist, blob, un>>
SkUnchanged == UNCHANGED <<obj, hist, blob>>

\* side-effect-free getters of the union, logged on every union event
UScalars(e, o) == /\ Chk("union-is_empty", e.empty = o.empty)
                  /\ Chk("union-lg_k", e.lgk = U!LgStar(o))
UBoundsOK(r, o, hllmode) ==
  /\ Chk("C06:bounds", /\ r.lb[3] <= r.lb[2] /\ r.lb[2] <= r.lb[1] /\ r.lb[1] <= r.est
                       /\ r.est <= r.ub[1] /\ r.ub[1] <= r.ub[2] /\ r.ub[2] <= r.ub[3])
  /\ LET retained == IF ~hllmode THEN Cardinality(o.fed)
                     ELSE IF o.big THEN Cardinality({p[1] % (2^U!LgStar(o)) : p \in o.fed \cup o.sp}) ELSE NonZero(o) IN
     Chk("C06:lb>=retained", \A k \in 1..3 : r.lbF[k] >= retained)
  /\ Chk("C06:coupon-estimate", ~hllmode => LET n == Cardinality(o.fed) IN r.estF >= n /\ r.estF <= n + n \div 1000 + 1)
  /\ Chk("C06:empty-estimate", o.empty => r.estF = 0)

TUBegin == TBegin /\ un' = <<>>
TUNew == IsEvent("UNew") /\ LET e == Log[l] IN
          /\ U!UNew(e.u, e.lgmaxk, e.lgmaxk > DenseMaxLgK) /\ UScalars(e, un'[e.u]) /\ SkUnchanged
TUUpdate == IsEvent("UUpdate") /\ LET e == Log[l]  sv == obj[e.src]  o == un[e.u]
                                      \* an empty HLL-mode input: did the implementation lower its precision? (left open by the statement)
                                      counted == IF sv.empty THEN sv.mode = HLL /\ sv.lgK < U!LgStar(o) /\ e.lgk = sv.lgK
                                                 ELSE sv.mode = HLL IN
          /\ U!UpdateSketch(e.u, sv, counted) /\ UScalars(e, un'[e.u]) /\ SkUnchanged
TUItem == IsEvent("UItem") /\ LET e == Log[l] IN
          /\ U!UpdateItem(e.u, <<e.c[1], e.c[2]>>) /\ UScalars(e, un'[e.u]) /\ SkUnchanged
TUItemIgnored == IsEvent("UItemIgnored") /\ LET e == Log[l] IN
          /\ U!UpdateIgnoredItem(e.u) /\ UScalars(e, un[e.u]) /\ SkUnchanged
TUReset == IsEvent("UReset") /\ LET e == Log[l] IN
          /\ U!UReset(e.u) /\ UScalars(e, un'[e.u]) /\ SkUnchanged
TUObs == IsEvent("UObs") /\ LET e == Log[l] IN
          /\ U!Observe(e.u) /\ UScalars(e, un[e.u]) /\ SkUnchanged
TUEst == IsEvent("UEst") /\ LET e == Log[l]  o == un[e.u] IN
          /\ U!Observe(e.u) /\ UScalars(e, o)
          /\ Chk("C06:bounds", /\ e.lb[3] <= e.lb[2] /\ e.lb[2] <= e.lb[1] /\ e.lb[1] <= e.est
                               /\ e.est <= e.ub[1] /\ e.ub[1] <= e.ub[2] /\ e.ub[2] <= e.ub[3])
          /\ Chk("C06:empty-estimate", o.empty => e.estF = 0)
          /\ SkUnchanged
\* get_result(type): ResultDef
TUResult == IsEvent("UResult") /\ LET e == Log[l]  o == un[e.u]  r == e.r  lg == U!LgStar(o) IN
          /\ U!Observe(e.u) /\ UScalars(e, o)
          /\ Chk("result-type", r.type = e.type /\ r.typeApi = e.type)
          /\ Chk("result-lg_k", r.lgk = lg /\ r.lgkApi = lg)
          /\ Chk("result-is_empty", r.empty = o.empty)
          /\ IF r.cmode = HLL
             THEN IF Has(r, "nz")     \* sparse observation (result lg_k > 16)
                  THEN Chk("result-registers", /\ o.big /\ Len(r.nz) = Cardinality(ToSet(r.nz))
                                               /\ U!PairsMatch(ToSet(r.nz), o.fed \cup o.sp, lg))
                  ELSE Chk("result-registers", /\ Len(r.regs) = 2^lg
                                               /\ IF o.big THEN U!PairsMatch({<<x - 1, r.regs[x]>> : x \in {y \in DOMAIN r.regs : r.regs[y] > 0}}, o.fed \cup o.sp, lg)
                                                  ELSE \A s \in DOMAIN o.top : r.regs[s + 1] = o.top[s])
             ELSE /\ Chk("result-coupon-mode-after-hll-input", o.hllLg = {})
                  /\ Chk("result-coupons", ToSet(r.coup) = o.fed /\ Len(r.coup) = Cardinality(o.fed))
          /\ Chk("ResultDef", U!ResultOK(o, [lgK |-> r.lgk, mode |-> r.cmode, empty |-> r.empty,
                                             regs |-> IF r.cmode = HLL /\ ~o.big THEN [s \in 0..(Len(r.regs) - 1) |-> r.regs[s + 1]] ELSE <<>>,
                                             nz |-> IF r.cmode # HLL \/ ~o.big THEN {}
                                                    ELSE IF Has(r, "nz") THEN ToSet(r.nz)
                                                    ELSE {<<x - 1, r.regs[x]>> : x \in {y \in DOMAIN r.regs : r.regs[y] > 0}},
                                             coup |-> IF r.cmode = HLL THEN {} ELSE ToSet(r.coup)]))
          /\ UBoundsOK(r, o, r.cmode = HLL)
          /\ SkUnchanged
\* the unions of a segment side by side: equal contract states => equal estimates, whatever the order of presentation,
\* the observers called in between and the lvalue / rvalue choice
TUCompare == IsEvent("UCompare") /\ LET e == Log[l] IN
          /\ \A n, k \in DOMAIN e.objs : n < k =>
               LET a == e.objs[n]  b == e.objs[k]  oa == un[a.u]  ob == un[b.u] IN
               (U!LgStar(oa) = U!LgStar(ob) /\ oa.top = ob.top /\ oa.fed = ob.fed /\ oa.sp = ob.sp /\ oa.big = ob.big /\ oa.empty = ob.empty
                  /\ (oa.hllLg = {}) = (ob.hllLg = {}) /\ Class(a.mode) = Class(b.mode))
                 => /\ Chk("order-independent-estimate", a.cest = b.cest)
                    /\ Chk("order-independent-result-estimate", a.rcest = b.rcest)
          /\ UNCHANGED <<obj, hist, blob, un>>

TUInit == TInit /\ un = <<>>
TUNext == TUBegin \/ (SkNext /\ UNCHANGED un)
          \/ TUNew \/ TUUpdate \/ TUItem \/ TUItemIgnored \/ TUReset \/ TUObs \/ TUEst \/ TUResult \/ TUCompare
TUSpec == TUInit /\ [][TUNext]_tuvars
====
