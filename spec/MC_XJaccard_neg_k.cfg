\* X04 negative configuration (TLC must report a violation): a union sized max(|A|,|B|) trims below the common theta
SPECIFICATION Spec
CONSTANTS MaxH = 4 KRule = "max"
INVARIANT RouteIsContract
CHECK_DEADLOCK FALSE
