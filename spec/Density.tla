---- MODULE Density ----
(***************************************************************************)
(* Tier A contract of density_sketch (property C20), written from the      *)
(* property statement and the public documentation only.                   *)
(*                                                                         *)
(* Points are abstract ids (naturals >= 1; id 0 = "not an input point").   *)
(* State per sketch i:                                                     *)
(*   k, dim   configuration                                                *)
(*   n        number of points offered (get_n)                             *)
(*   lev      Seq of bags of point ids: lev[h+1] = the points iterated     *)
(*            with weight 2^h (a bag is a function id -> positive count)   *)
(*   est      is_estimation_mode(): some compaction has happened           *)
(*   inp      GHOST: the bag of all points offered (own and merged-in)     *)
(*                                                                         *)
(* WHICH points a compaction keeps (a random, kernel-discrepancy driven    *)
(* choice) and WHEN it happens is not fixed by the property: the new       *)
(* levels L and the mode flag are explicit parameters of Update and Merge, *)
(* constrained only by the clauses of the statement (PostOK).  Model       *)
(* checking enumerates every promoted sub-bag of every compaction; trace   *)
(* validation passes the logged post-state as the witness.                 *)
(* (The sketch does NOT conserve the sum of weights and the property does  *)
(* not claim it.)                                                          *)
(***************************************************************************)
EXTENDS Naturals, Sequences, FiniteSets, FiniteSetsExt, TLC
CONSTANTS Ids, Points, Ks, MaxN     \* bounds used only by Next (model checking)
VARIABLE obj
vars == <<obj>>
Live == DOMAIN obj

\* ---- bags of point ids
EmptyB == <<>>
BSize(b) == FoldSet(LAMBDA x, acc : acc + b[x], 0, DOMAIN b)
BCount(b, x) == IF x \in DOMAIN b THEN b[x] ELSE 0
BAdd(b, x) == IF x \in DOMAIN b THEN [b EXCEPT ![x] = @ + 1] ELSE (x :> 1) @@ b
BUnion(a, b) == [x \in DOMAIN a \cup DOMAIN b |-> BCount(a, x) + BCount(b, x)]
BOfSeq(s) == [x \in {s[i] : i \in DOMAIN s} |-> Cardinality({i \in DOMAIN s : s[i] = x})]

Retained(L) == FoldSet(LAMBDA h, acc : acc + BSize(L[h]), 0, DOMAIN L)
Pow2(h) == 2 ^ h

\* counts beyond TLC's 32-bit integers (n >= 2^32 is reachable by merge doublings) are pairs <<lo, hi>> of limbs,
\* value = lo + hi * 2^24
WB == 16777216
WNorm(lo, hi) == <<lo % WB, hi + lo \div WB>>
WAdd(a, b) == WNorm(a[1] + b[1], a[2] + b[2])

Fresh(k, dim) == [k |-> k, dim |-> dim, n |-> 0, lev |-> <<EmptyB>>, est |-> FALSE, inp |-> EmptyB]

\* the clauses of the statement that constrain a reachable state
PostOK(o) ==
  /\ Len(o.lev) >= 1
  /\ o.n = BSize(o.inp)                                              \* n exact
  /\ Retained(o.lev) <= o.k * Len(o.lev)                             \* never exceeds k times the number of levels
  /\ \A h \in DOMAIN o.lev : \A x \in DOMAIN o.lev[h] : x \in DOMAIN o.inp /\ o.lev[h][x] > 0   \* retained points are input points
  /\ (~o.est => /\ o.lev[1] = o.inp                                  \* before the first compaction: every input, weight 1
                /\ \A h \in 2..Len(o.lev) : o.lev[h] = EmptyB)

\* (TLC: evaluate p as a state predicate; as a bare conjunct of an action its disjunctions would be explored as
\* alternative successors)
Holds(p) == IF p THEN TRUE ELSE FALSE
Init == obj = <<>>
New(i, k, dim) == obj' = (i :> Fresh(k, dim)) @@ obj

\* update(point of the configured dimension): compactions are free, the result must honour the clauses
Update(i, p, L, est) ==
  /\ i \in Live
  /\ LET o == obj[i]
         n == [o EXCEPT !.n = @ + 1, !.inp = BAdd(@, p), !.lev = L, !.est = est]
     IN Holds(PostOK(n)) /\ obj' = [obj EXCEPT ![i] = n]
\* update(point of another dimension) is refused, nothing changes
UpdateRefused(i) == i \in Live /\ UNCHANGED obj
\* i.merge(j): n adds, j is not changed
Merge(i, j, L, est) ==
  /\ i \in Live /\ j \in Live /\ i # j
  /\ LET a == obj[i]  b == obj[j]
         n == [a EXCEPT !.n = a.n + b.n, !.inp = BUnion(a.inp, b.inp), !.lev = L, !.est = est]
     IN /\ Holds(a.dim = b.dim \/ b.n = 0)
        /\ Holds(PostOK(n)) /\ obj' = [obj EXCEPT ![i] = n]
\* i.merge(j) with a non-empty j of another dimension is refused
MergeRefused(i, j) == i \in Live /\ j \in Live /\ obj[i].dim # obj[j].dim /\ obj[j].n > 0 /\ UNCHANGED obj
Copy(i, j) == i \in Live /\ obj' = (j :> obj[i]) @@ obj
Destroy(i) == i \in Live /\ obj' = [x \in Live \ {i} |-> obj[x]]

(***************************************************************************)
(* Estimates.  The harness instantiates the sketch with the integer-valued *)
(* user kernel K(p,q) = max(0, R - |p-q|_1) on integer points, so the      *)
(* exact kernel sum is an integer computed here.  coord[x] = coordinates   *)
(* of point id x; q = coordinates of the query point.                      *)
(***************************************************************************)
AbsDiff(a, b) == IF a >= b THEN a - b ELSE b - a
L1(p, q) == FoldSet(LAMBDA d, acc : acc + AbsDiff(p[d], q[d]), 0, DOMAIN p)
Kern(p, q, R) == IF R > L1(p, q) THEN R - L1(p, q) ELSE 0
ExactSum(o, q, coord, R) == FoldSet(LAMBDA x, acc : acc + o.inp[x] * Kern(coord[x], q, R), 0, DOMAIN o.inp)
\* estS = round(estimate * n * S): before the first compaction the estimate is the exact kernel mean over all inputs
ExactEstimate(o, q, coord, R, estS, S) == ~o.est => AbsDiff(estS, S * ExactSum(o, q, coord, R)) <= 1

\* ------------------------------------------------------------------ model checking
\* all sub-bags of b
SubBags(b) == LET D == DOMAIN b
                  M == Max({b[x] : x \in D} \cup {0})
              IN { [x \in {y \in D : c[y] > 0} |-> c[x]] : c \in {f \in [D -> 0..M] : \A x \in D : f[x] <= b[x]} }
FirstFull(L, k) == CHOOSE h \in DOMAIN L : BSize(L[h]) >= k /\ \A g \in 1..(h - 1) : BSize(L[g]) < k
\* one compaction: the lowest level holding >= k points is emptied, an arbitrary sub-bag of it is promoted
CompactOnce(L, k) ==
  LET h == FirstFull(L, k)
      Lx == IF h = Len(L) THEN Append(L, EmptyB) ELSE L
  IN { [Lx EXCEPT ![h] = EmptyB, ![h + 1] = BUnion(@, s)] : s \in SubBags(L[h]) }
RECURSIVE CompactAll(_, _)
CompactAll(L, k) == IF Retained(L) < k * Len(L) THEN {L} ELSE UNION {CompactAll(L2, k) : L2 \in CompactOnce(L, k)}

RECURSIVE NOver(_)
NOver(S) == IF S = {} THEN 0 ELSE LET x == CHOOSE y \in S : TRUE IN obj[x].n + NOver(S \ {x})
Next == \E i \in Ids :
          \/ i \notin Live /\ \E k \in Ks : New(i, k, 1)
          \/ i \in Live /\ NOver(Live) < MaxN /\ \E p \in Points :
                \E L2 \in CompactAll(obj[i].lev, obj[i].k) :
                   Update(i, p, [L2 EXCEPT ![1] = BAdd(@, p)], obj[i].est \/ L2 # obj[i].lev)
          \/ i \in Live /\ UpdateRefused(i)
          \/ \E j \in Ids \ {i} : i \in Live /\ j \in Live /\ obj[i].n + obj[j].n <= MaxN /\ obj[j].n > 0 /\
                LET a == obj[i].lev  b == obj[j].lev
                    m == IF Len(a) >= Len(b) THEN Len(a) ELSE Len(b)
                    U == [h \in 1..m |-> BUnion(IF h <= Len(a) THEN a[h] ELSE EmptyB, IF h <= Len(b) THEN b[h] ELSE EmptyB)]
                IN \E L2 \in CompactAll(U, obj[i].k) :
                     Merge(i, j, L2, obj[i].est \/ obj[j].est \/ L2 # U \/ m > 1)
          \/ i \in Live /\ Destroy(i)
Spec == Init /\ [][Next]_vars

Inv == \A i \in Live : PostOK(obj[i]) /\ Retained(obj[i].lev) <= obj[i].n
\* the implementation-shaped generator used by Next (compact while retained >= k * levels, then insert) must never be
\* refused by the contract: every state it can produce satisfies the clauses (guards against a contract that is too strict)
GenOK == \A i \in Live : \A p \in Points : \A L2 \in CompactAll(obj[i].lev, obj[i].k) :
           PostOK([obj[i] EXCEPT !.n = @ + 1, !.inp = BAdd(@, p), !.lev = [L2 EXCEPT ![1] = BAdd(@, p)],
                                 !.est = obj[i].est \/ L2 # obj[i].lev])
====
