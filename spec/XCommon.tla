---- MODULE XCommon ----
(***************************************************************************)
(* X09 - contracts of the small shared helpers of common/include:          *)
(*  count_zeros.hpp     count_leading_zeros_in_u64 / _u32,                 *)
(*                      count_trailing_zeros_in_u32 / _u64 (0 -> width)    *)
(*  ceiling_power_of_2  "the next highest power of 2 of 32-bit n"          *)
(*  inv_pow2_table      INVERSE_POWERS_OF_2[i] = 2^-i (exactly)            *)
(*  common_defs         log2 (floor), lg_size_from_count (smallest table   *)
(*                      2^g that holds n entries at the load factor),      *)
(*                      byteswap, stream read / write helpers              *)
(*  memory_operations   check_memory_size / ensure_minimum_memory          *)
(*  serde.hpp           fixed-size arithmetic serde (items back to back in *)
(*                      host = little-endian order), std::string serde     *)
(*                      ("the length of each string is stored as a 32-bit  *)
(*                      integer", then its bytes), size_of_item, stream    *)
(*                      and bytes forms agree, truncated input refused     *)
(*  bounds_binomial_proportions  approximate Clopper-Pearson interval:     *)
(*                      lb <= k/n <= ub within [0,1], widening with the    *)
(*                      number of standard deviations, corners, refusal of *)
(*                      k > n; erf / normal_cdf "accurate to roughly 7     *)
(*                      decimal digits" against tabulated values.          *)
(* 64-bit values are four 16-bit limbs (most significant first).           *)
(***************************************************************************)
EXTENDS Integers, Sequences, FiniteSets, TLC

LimbBit(v, k) == (v[4 - (k \div 16)] \div (2 ^ (k % 16))) % 2
IsZero(v) == v = <<0, 0, 0, 0>>
SetBits(v, w) == {k \in 0..(w - 1) : LimbBit(v, k) = 1}
MaxOf(S) == CHOOSE m \in S : \A y \in S : y <= m
MinOf(S) == CHOOSE m \in S : \A y \in S : m <= y
\* leading / trailing zeros of the low w bits of v
Clz(v, w) == IF SetBits(v, w) = {} THEN w ELSE w - 1 - MaxOf(SetBits(v, w))
Ctz(v, w) == IF SetBits(v, w) = {} THEN w ELSE MinOf(SetBits(v, w))
RECURSIVE LimbCmpFrom(_, _, _)
LimbCmpFrom(a, b, i) == IF i > 4 THEN 0 ELSE IF a[i] < b[i] THEN -1 ELSE IF a[i] > b[i] THEN 1 ELSE LimbCmpFrom(a, b, i + 1)
LimbLE(a, b) == LimbCmpFrom(a, b, 1) <= 0
Pow2Limbs(j) == [i \in 1..4 |-> IF i = 4 - (j \div 16) THEN 2 ^ (j % 16) ELSE 0]

\* ceiling_power_of_2(n) for 1 <= n <= 2^31: the power of two r with r/2 < n <= r  (0 and n > 2^31 have no such 32-bit r: free)
CeilPow2Defined(n) == ~IsZero(n) /\ LimbLE(n, Pow2Limbs(31))
CeilPow2OK(n, r) == \E j \in 0..31 : r = Pow2Limbs(j) /\ LimbLE(n, r) /\ (j = 0 \/ ~LimbLE(n, Pow2Limbs(j - 1)))
\* log2(n) = floor(log2 n) for n >= 1
Log2OK(n, r) == ~IsZero(n) => r = 31 - Clz(n, 32)
\* lg_size_from_count(n, num/den) with 1/2 <= num/den < 1 and 1 <= n < 2^24: the smallest g with n <= 2^g * num / den
LgSizeOK(n, num, den, g) == n * den <= (2 ^ g) * num /\ n * den > (2 ^ (g - 1)) * num
\* 2^-i as an IEEE-754 double: sign 0, exponent field 1023 - i, mantissa 0
InvPow2Bits(i) == <<(1023 - i) * 16, 0, 0, 0>>
\* byte j (0 = least significant) of a value; its little-endian image of `size` bytes; byteswap
ByteOf(v, j) == (v[4 - (j \div 2)] \div (256 ^ (j % 2))) % 256
LE(v, size) == [j \in 1..size |-> ByteOf(v, j - 1)]
Swapped(v, size, r) == \A j \in 0..(size - 1) : ByteOf(r, j) = ByteOf(v, size - 1 - j)

\* ---- serde images
RECURSIVE FlatLE(_, _)
FlatLE(items, size) == IF items = <<>> THEN <<>> ELSE LE(Head(items), size) \o FlatLE(Tail(items), size)
LE32(n) == <<n % 256, (n \div 256) % 256, (n \div 65536) % 256, (n \div 16777216) % 256>>
RECURSIVE StrImage(_)
StrImage(strs) == IF strs = <<>> THEN <<>> ELSE LE32(Len(Head(strs))) \o Head(strs) \o StrImage(Tail(strs))
RECURSIVE StrSizes(_)
StrSizes(strs) == IF strs = <<>> THEN <<>> ELSE <<4 + Len(Head(strs))>> \o StrSizes(Tail(strs))
\* decoding num strings from an image: [ok, strs]; not ok when the image ends inside a length or inside a string
RECURSIVE StrDecode(_, _)
StrDecode(img, num) ==
  IF num = 0 THEN [ok |-> TRUE, strs |-> <<>>]
  ELSE IF Len(img) < 4 THEN [ok |-> FALSE, strs |-> <<>>]
  ELSE LET n == img[1] + 256 * img[2] + 65536 * img[3] + 16777216 * img[4] IN
       IF Len(img) < 4 + n THEN [ok |-> FALSE, strs |-> <<>>]
       ELSE LET rest == StrDecode(SubSeq(img, 5 + n, Len(img)), num - 1) IN
            IF rest.ok THEN [ok |-> TRUE, strs |-> <<SubSeq(img, 5, 4 + n)>> \o rest.strs] ELSE rest

\* ---- erf / normal cdf in units of 1e-6 for x in units of 1e-3 (tabulated from the mathematical definition)
Erf6(x) == CASE x = 0 -> 0 [] x = 100 -> 112463 [] x = 250 -> 276326 [] x = 500 -> 520500 [] x = 750 -> 711156 [] x = 1000 -> 842701
             [] x = 1500 -> 966105 [] x = 2000 -> 995322 [] x = 2500 -> 999593 [] x = 3000 -> 999978 [] x = 4000 -> 1000000
Cdf6(x) == CASE x = 0 -> 500000 [] x = 500 -> 691462 [] x = 1000 -> 841345 [] x = 1500 -> 933193 [] x = 2000 -> 977250
             [] x = 2500 -> 993790 [] x = 3000 -> 998650 [] x = 4000 -> 999968
ErfXs == {0, 100, 250, 500, 750, 1000, 1500, 2000, 2500, 3000, 4000}
CdfXs == {0, 500, 1000, 1500, 2000, 2500, 3000, 4000}
====
