\* Ids: sketch identities; Items: item universe; Weights: update weights; LgMaxs: lg_max_map_size values (small, so that
\* the epsilon clause 3.5/2^lg binds); MaxTotal: bound on the total weight of all live sketches together (CONSTRAINT) and on counters/offset
SPECIFICATION Spec
CONSTANTS Ids = {1, 2}
 Items = {1, 2}
 Weights = {1, 2}
 LgMaxs = {1, 2}
 MaxTotal = 3
INVARIANT Inv
CONSTRAINT Bound
CONSTANT WideNums = FALSE
CHECK_DEADLOCK FALSE
