---- MODULE CountMinDesign ----
(***************************************************************************)
(* Tier B design model of count_min_sketch (count/include/count_min_impl   *)
(* .hpp): rows x buckets counters stored row after row; row r of a sketch  *)
(* of configuration c sends item x to bucket H[c][x][r] (in the code:      *)
(* MurmurHash3(item, row seed).h1 mod num_buckets, the row seeds being     *)
(* drawn from std::default_random_engine(seed) - an unspecified function   *)
(* of the configuration, so the model quantifies over EVERY H: H is chosen *)
(* in the initial state and never changes); update adds the weight to one  *)
(* cell per row; estimate = minimum over the rows; lower bound = estimate; *)
(* upper bound = estimate + floor(e / buckets * total); merge = refused    *)
(* for self / different configuration, else cell-wise sum.                 *)
(* TLC checks that the model refines the contract CountMin (PROPERTY       *)
(* Refines) and that every answer honours EstOK (INVARIANT EstInv).        *)
(* Mode: "min" (code) | "max" / "skiprow" (negative configs: estimate by   *)
(* row maximum; merge forgetting the last row).                            *)
(***************************************************************************)
EXTENDS Naturals, FiniteSets, Sequences, TLC
CONSTANTS Ids, Items, Weights, Cfgs, MaxTotal, Mode,
          FreeCfgs      \* configurations whose row hash function ranges over every function (the others: bucket 1);
                        \* Items must be 1..n
VARIABLES obj, H
dvars == <<obj, H>>

Live == DOMAIN obj
Get(f, x) == IF x \in DOMAIN f THEN f[x] ELSE 0
Add(f, x, w) == IF x \in DOMAIN f THEN [f EXCEPT ![x] = @ + w] ELSE f @@ (x :> w)
Plus(f, g) == [x \in DOMAIN f \cup DOMAIN g |-> Get(f, x) + Get(g, x)]
NumCells(c) == c.rows * c.buckets
Loc(c, x, r) == (r - 1) * c.buckets + H[c][x][r]          \* hash_seed_index * num_buckets + bucket_index
MinOf(S) == CHOOSE v \in S : \A u \in S : v <= u
MaxOf(S) == CHOOSE v \in S : \A u \in S : v >= u

Est(o, x) == LET vals == {o.cells[Loc(o.cfg, x, r)] : r \in 1..o.cfg.rows} IN
             IF Mode = "max" THEN MaxOf(vals) ELSE MinOf(vals)
Lb(o, x) == Est(o, x)
\* static_cast<W>(estimate + exp(1.0) / num_buckets * total):  e is enclosed by 2718/1000 (small totals: same floor)
Ub(o, x) == Est(o, x) + (2718 * o.total) \div (1000 * o.cfg.buckets)

\* Renaming the buckets of one row of one configuration is a symmetry of the model (cells are only compared position
\* by position between sketches of the same configuration, estimates are minima of cell values), so it is enough to
\* let item x choose among the first x buckets of each row (every partition of the items per row is still reached).
\* Configurations outside FreeCfgs only serve as the incompatible operand of refused merges: everything in bucket 1.
Init == /\ obj = <<>>
        /\ H \in [Cfgs -> [Items -> UNION {[1..c.rows -> 1..c.buckets] : c \in Cfgs}]]
        /\ \A c \in Cfgs, x \in Items : /\ H[c][x] \in [1..c.rows -> 1..c.buckets]
                                        /\ \A r \in 1..c.rows : H[c][x][r] <= x
        /\ \A c \in Cfgs \ FreeCfgs, x \in Items : H[c][x] = [r \in 1..c.rows |-> 1]
New(i, c) == i \notin Live /\ obj' = (i :> [cfg |-> c, cells |-> [k \in 1..NumCells(c) |-> 0], total |-> 0,
                                             stream |-> <<>>, truth |-> <<>>]) @@ obj /\ UNCHANGED H
Update(i, x, w) ==
  /\ i \in Live
  /\ LET o == obj[i]
         hit == {Loc(o.cfg, x, r) : r \in 1..o.cfg.rows} IN
     obj' = [obj EXCEPT ![i] = [o EXCEPT !.cells = [k \in DOMAIN o.cells |-> IF k \in hit THEN o.cells[k] + w ELSE o.cells[k]],
                                         !.total = @ + w, !.stream = Append(@, <<x, w>>), !.truth = Add(@, x, w)]]
  /\ UNCHANGED H
Merge(i, j) ==
  /\ i \in Live /\ j \in Live
  /\ IF i = j \/ obj[i].cfg # obj[j].cfg THEN UNCHANGED obj            \* throws std::invalid_argument
     ELSE LET o == obj[i]  p == obj[j]
              last == {k \in DOMAIN o.cells : k > (o.cfg.rows - 1) * o.cfg.buckets} IN
          obj' = [obj EXCEPT ![i] = [o EXCEPT !.cells = [k \in DOMAIN o.cells |->
                                                           IF Mode = "skiprow" /\ k \in last THEN o.cells[k] ELSE o.cells[k] + p.cells[k]],
                                              !.total = @ + p.total, !.stream = @ \o p.stream, !.truth = Plus(@, p.truth)]]
  /\ UNCHANGED H
Destroy(i) == i \in Live /\ obj' = [x \in Live \ {i} |-> obj[x]] /\ UNCHANGED H

Next == \E i \in Ids :
          \/ \E c \in Cfgs : New(i, c)
          \/ \E x \in Items, w \in Weights : Update(i, x, w)
          \/ \E j \in Ids : Merge(i, j)
          \/ Destroy(i)
Spec == Init /\ [][Next]_dvars

RECURSIVE SumT(_)
SumT(S) == IF S = {} THEN 0 ELSE LET i == CHOOSE j \in S : TRUE IN obj[i].total + SumT(S \ {i})
RECURSIVE SumL(_)
SumL(S) == IF S = {} THEN 0 ELSE LET i == CHOOSE j \in S : TRUE IN Len(obj[i].stream) + SumL(S \ {i})
\* total weight and number of updates (zero weights do not add weight) per sketch
Bound == \A i \in Live : obj[i].total <= MaxTotal /\ Len(obj[i].stream) <= MaxTotal

C == INSTANCE CountMin WITH WideNums <- FALSE
\* every answer of the mechanism honours the contract's clause on returned values
EstInv == \A i \in Live, x \in Items : C!EstOK(obj[i], x, Est(obj[i], x), Lb(obj[i], x), Ub(obj[i], x))
\* every design step is a contract step whose free outcome (the new cells) is the design's own post-state
RefStep == \/ \E i \in Ids, c \in Cfgs : i \notin Live /\ C!New(i, c)
           \/ \E i \in Live \cap DOMAIN obj', x \in Items, w \in Weights : C!Update(i, x, w, obj'[i].cells)
           \/ \E i \in Live \cap DOMAIN obj', j \in Live : C!Merge(i, j, obj'[i].cells)
           \/ \E i \in Live, j \in Live : C!MergeRefused(i, j)
           \/ \E i \in Live : C!Destroy(i)
Refines == [][RefStep]_obj
CInv == C!Inv
====
