\* thorough variant of MC_FreqItemsDesign_w1.cfg (total weight 7)
\* design model of the reverse-purge map refining the contract.  LgMin: LG_MIN_MAP_SIZE lowered from 3 to 1 so that maps of
\* 2 and 4 slots (capacity 1 and 3) resize and purge within a few updates; LgMaxs: lg_max_map_size; Items/Weights: update
\* alphabet; MaxTotal: bound on the weight offered to all live sketches together; EmptyTest "weight" = merge skips an other
\* sketch only when nothing was ever offered to it (proposed fix notes/fixes/fi_empty_map.diff)
SPECIFICATION Spec
CONSTANTS Ids = {1, 2}
 Items = {1, 2, 3, 4, 5}
 Weights = {1}
 LgMaxs = {2}
 MaxTotal = 7
 LgMin = 1
 EmptyTest = "weight"
INVARIANT DInv CInv
PROPERTY Refines
CONSTRAINT Bound
CHECK_DEADLOCK FALSE
