\* NEGATIVE config (self-test only): model of the PINNED internal_query_and_update, which overwrites a dirty count
\* (update_num_bits_set(cached + new) clears the dirty flag).  Must violate the contract in 4 calls on an OWNED filter:
\* New(f1, c); Update(f1, x); QueryUpdate(f1, x); then Query(f1, x) / IsEmpty(f1) / BitsUsed(f1) answer "empty".
SPECIFICATION MCSpecR
CONSTANTS FltIds = {f1, f2}
 MemIds = {1}
 Cfgs <- MCCfg1
 Items <- MCItems
 MaxCalls = 5
 WriteDirtyThrough = TRUE
 QauKeepsDirty = FALSE
 RoCheckSetOps = TRUE
 RemarkWhenDirty = TRUE
INVARIANT CInv
CONSTRAINT MCBound
CHECK_DEADLOCK FALSE
