SPECIFICATION TSpec
CONSTANTS Ids = {} Items = {} Weights = {} Cfgs = {} MaxTotal = 0
 TierB = TRUE
POSTCONDITION Accepted
CONSTANT WideNums = FALSE
CHECK_DEADLOCK FALSE
