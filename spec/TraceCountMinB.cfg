SPECIFICATION TSpec
CONSTANTS Ids = {} Items = {} Weights = {} Cfgs = {} MaxTotal = 0
 TierB = TRUE
POSTCONDITION Accepted
CHECK_DEADLOCK FALSE
