---- MODULE XIter ----
(***************************************************************************)
(* X07 - the iterator protocol of the sketches that expose begin()/end()   *)
(* (theta / tuple update, compact, wrapped; kll; req; classic quantiles;   *)
(* var_opt; ebpps; density; count-min cells).  The iterators declare       *)
(* themselves std::input_iterator (or better), so the C++ named            *)
(* requirements apply:                                                     *)
(*  - an unmodified object is a finite sequence S of entries; an iterator  *)
(*    is a position 0..Len(S); begin() = 0, end() = Len(S);                *)
(*  - ++it moves to the next position and returns it;                      *)
(*  - it++ moves `it` and returns A COPY OF THE OLD POSITION (a value: it   *)
(*    is an object of its own, still usable after `it` moved on);          *)
(*  - *p is the entry at position p < Len(S); p == q iff same position.    *)
(* Consequences checked on recorded executions: every way of traversing    *)
(* (pre-increment, `*it++`, saved `prev = it++` dereferenced later,        *)
(* range-for, the non-const begin(), std::distance) sees the same Len(S)   *)
(* entries in the same order, Len(S) is the number of retained entries the *)
(* object reports, and begin() == end() iff that number is 0.              *)
(***************************************************************************)
EXTENDS Integers, Sequences, TLC

\* one recorded object: every view of the sequence agrees with the pre-increment traversal `pre`
ViewsAgree(pre, post, postPrev, rangeFor) == post = pre /\ postPrev = pre /\ rangeFor = pre
CountOK(pre, nlo, nhi) == nlo <= Len(pre) /\ Len(pre) <= nhi
====
